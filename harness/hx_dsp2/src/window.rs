//! C20 driver: the stand-alone `Window` iterator (`window`: values and the phases read through
//! its public `phase` field), the `Windower` (`windower`: `size_hint`, `next`, and the other ways an
//! iterator is advanced -- `nth{k}`, `skip{k}` = `by_ref().skip(k).next()`, `step_by{s,m}` = the first m
//! items of `by_ref().step_by(s)`; the first `bin` frames of every chunk are logged) and the window
//! FUNCTIONS evaluated directly (`winfn`: `eval` = `dasp_window::Window::window(p)` for Hann / Rectangle
//! on f64 / f32 / i16 phases, inside, at the ends of and outside [0, 1]).  Drivers and loggers only.
use crate::enc::*;
use dasp_frame::Frame;
use dasp_sample::Sample;
use dasp_signal::window::{Window, Windower};
use dasp_window::{Hann, Rectangle, Window as WindowType};
use hx_common::*;
use serde_json::{json, Value};

/// the two ways the library offers to build a window / windower of a given kind: the generic
/// constructors (`Window::new`, `Windower::new`) and the named ones (`window::hann(n)`,
/// `Windower::hann(..)`, `window::rectangle(n)`, `Windower::rectangle(..)`)
pub trait Kind: WindowType<f64, Output = f64> + Clone {
    fn named_window<F: Frame>(n: usize) -> Window<F, Self>;
    fn named_windower<'a, F: 'a + Frame>(frames: &'a [F], bin: usize, hop: usize) -> Windower<'a, F, Self>;
}
impl Kind for Hann {
    fn named_window<F: Frame>(n: usize) -> Window<F, Hann> {
        dasp_signal::window::hann(n)
    }
    fn named_windower<'a, F: 'a + Frame>(frames: &'a [F], bin: usize, hop: usize) -> Windower<'a, F, Hann> {
        Windower::hann(frames, bin, hop)
    }
}
impl Kind for Rectangle {
    fn named_window<F: Frame>(n: usize) -> Window<F, Rectangle> {
        dasp_signal::window::rectangle(n)
    }
    fn named_windower<'a, F: 'a + Frame>(frames: &'a [F], bin: usize, hop: usize) -> Windower<'a, F, Rectangle> {
        Windower::rectangle(frames, bin, hop)
    }
}
fn make_window<F: Frame, W: Kind>(named: bool, n: usize) -> Window<F, W> {
    if named { W::named_window::<F>(n) } else { Window::<F, W>::new(n) }
}

fn hint_json(h: Option<(usize, Option<usize>)>) -> Value {
    match h {
        None => r_panic(),
        Some((lo, hi)) => r_val(json!({"lo": big_u(lo as u128), "hi": match hi {
            Some(x) => r_some(big_u(x as u128)),
            None => json!({"k":"none","v": big_u(0)}),
        }})),
    }
}

fn take_window<S, W>(out: &mut Out, cfg: &Value, ops: &[Value])
where
    S: Enc + Default,
    [S; 1]: Frame<Sample = S>,
    W: Kind,
{
    let n = cfg["n"].as_u64().unwrap() as usize;
    let named = cfg["ctor"].as_str() == Some("named");
    let built = catch(|| make_window::<[S; 1], W>(named, n));
    // slot 0 = the instance `take` reads; slots 1, 2 = further instances (`new`, `clone`)
    let mut slots: Vec<Option<Window<[S; 1], W>>> = vec![None, None, None];
    match built {
        None => {
            out.line(&json!({"ev":"reset","comp":"window","cfg":cfg,"r":r_panic(),"o":{"ok":false}}));
            return;
        }
        Some(w) => slots[0] = Some(w),
    };
    out.line(&json!({"ev":"reset","comp":"window","cfg":cfg,"r":r_unit(),"o":{"ok":true}}));
    for op in ops {
        let ev = op["ev"].as_str().unwrap();
        let a = &op["a"];
        let wi = a["w"].as_u64().unwrap_or(0) as usize;
        match ev {
            "take" => {
                let w = slots[0].as_mut().expect("window slot 0");
                let k = a["n"].as_u64().unwrap() as usize;
                let mut vals: Vec<S> = Vec::with_capacity(k);
                let mut phs: Vec<f64> = Vec::with_capacity(k);
                let mut ended = false;
                let (r, h, _) = measured(|| {
                    catch(|| {
                        for _ in 0..k {
                            // the phase the next value will be sampled at (public field; a clone is stepped)
                            phs.push(w.phase.clone().next_phase());
                            match w.next() {
                                Some(f) => vals.push(*f.channel(0).unwrap()),
                                None => {
                                    ended = true;
                                    break;
                                }
                            }
                        }
                    })
                });
                let r = match r {
                    None => r_panic(),
                    Some(()) => r_items(Value::Array(vals.iter().map(|v| v.enc()).collect())),
                };
                out.ev(
                    "take",
                    json!({"n": k}),
                    r,
                    json!({"ok": true, "ended": ended, "ph": Value::Array(phs.iter().map(|p| f64f(*p)).collect())}),
                    h,
                );
            }
            "new" => {
                let c = catch(|| make_window::<[S; 1], W>(named, n));
                let ok = c.is_some();
                slots[wi] = c;
                out.ev("new", json!({"w": wi}), if ok { r_unit() } else { r_panic() }, json!({"ok": true}), [0, 0, 0]);
            }
            "rewind" => {
                // the public `phase` field assigned from a fresh window of the same length
                let r = catch(|| {
                    let fresh = make_window::<[S; 1], W>(named, n);
                    slots[wi].as_mut().expect("window slot").phase = fresh.phase;
                });
                out.ev("rewind", json!({"w": wi}), if r.is_some() { r_unit() } else { r_panic() }, json!({"ok": true}), [0, 0, 0]);
            }
            "clone" => {
                let to = a["to"].as_u64().unwrap() as usize;
                let c = catch(|| slots[wi].as_ref().expect("window slot").clone());
                let ok = c.is_some();
                if ok {
                    slots[to] = c;
                }
                out.ev("clone", json!({"w": wi, "to": to}), if ok { r_unit() } else { r_panic() }, json!({"ok": true}), [0, 0, 0]);
            }
            "next" | "nth" => {
                let k = a["k"].as_u64().unwrap_or(0) as usize;
                let w = slots[wi].as_mut().expect("window slot");
                let (r, h, _) = measured(|| catch(|| if ev == "next" { w.next() } else { w.nth(k) }));
                let r = match r {
                    None => r_panic(),
                    Some(Some(f)) => r_some(f.channel(0).unwrap().enc()),
                    Some(None) => json!({"k":"none","v": S::default().enc()}),
                };
                out.ev(ev, json!({"w": wi, "k": k}), r, json!({"ok": true}), h);
            }
            "step_by" | "takeby" => {
                let st = a["s"].as_u64().unwrap_or(1) as usize;
                let m = a["m"].as_u64().unwrap() as usize;
                let w = slots[wi].as_mut().expect("window slot");
                let mut vals: Vec<S> = Vec::with_capacity(m);
                let (r, h, _) = measured(|| {
                    catch(|| {
                        if ev == "takeby" {
                            for f in w.by_ref().take(m) {
                                vals.push(*f.channel(0).unwrap());
                            }
                        } else {
                            for f in w.by_ref().step_by(st).take(m) {
                                vals.push(*f.channel(0).unwrap());
                            }
                        }
                    })
                });
                let r = match r {
                    None => r_panic(),
                    Some(()) => r_items(Value::Array(vals.iter().map(|v| v.enc()).collect())),
                };
                out.ev(ev, json!({"w": wi, "s": st, "m": m}), r, json!({"ok": true}), h);
            }
            "size_hint" => {
                let w = slots[wi].as_ref().expect("window slot");
                let (r, h, _) = measured(|| catch(|| w.size_hint()));
                out.ev("size_hint", json!({"w": wi}), hint_json(r), json!({"ok": true}), h);
            }
            _ => panic!("unknown window op {}", ev),
        }
    }
}

/// frames of a chunk (an endless iterator) into a buffer allocated beforehand.  The first `bin` frames read in
/// one of four ways: 0 next(), 1 by_ref().take(bin), 2 nth(0), 3 the first half by next(), the rest from a
/// clone of the chunk; or a part of them: 4 nth(1) repeated (positions 1, 3, ... below bin), 5 step_by(2)
/// (positions 0, 2, ...), 6 skip(1) (positions 1 .. bin-1)
fn head<I: Iterator + Clone>(mut c: I, bin: usize, via: u64, buf: &mut Vec<I::Item>) {
    match via {
        4 => {
            for _ in 0..(bin / 2) {
                match c.nth(1) {
                    Some(f) => buf.push(f),
                    None => break,
                }
            }
        }
        5 => {
            for f in c.step_by(2).take((bin + 1) / 2) {
                buf.push(f);
            }
        }
        6 => {
            for f in c.skip(1).take(bin.saturating_sub(1)) {
                buf.push(f);
            }
        }
        1 => {
            for f in c.by_ref().take(bin) {
                buf.push(f);
            }
        }
        2 => {
            for _ in 0..bin {
                match c.nth(0) {
                    Some(f) => buf.push(f),
                    None => break,
                }
            }
        }
        3 => {
            for _ in 0..(bin / 2) {
                match c.next() {
                    Some(f) => buf.push(f),
                    None => return,
                }
            }
            let mut d = c.clone();
            for _ in (bin / 2)..bin {
                match d.next() {
                    Some(f) => buf.push(f),
                    None => break,
                }
            }
        }
        _ => {
            for _ in 0..bin {
                match c.next() {
                    Some(f) => buf.push(f),
                    None => break,
                }
            }
        }
    }
}

fn windower<F, W>(out: &mut Out, cfg: &Value, ops: &[Value])
where
    F: Frame,
    F::Sample: Enc,
    <F::Sample as Sample>::Float: Enc,
    [<F::Sample as Sample>::Float; 1]: Frame<Sample = <F::Sample as Sample>::Float>,
    W: Kind,
{
    let bin0 = cfg["b"].as_u64().unwrap() as usize;
    let hop0 = cfg["h"].as_u64().unwrap() as usize;
    let named = cfg["ctor"].as_str() == Some("named");
    let frames: Vec<F> = cfg["frames"].as_array().unwrap().iter().map(|v| dec_frame(v)).collect();
    let mut echo = cfg.clone();
    echo["frames"] = enc_frames(&frames);
    echo["L"] = json!(frames.len());
    echo["ffmt"] = json!(<<F::Sample as Sample>::Float as Enc>::FMT);
    // the window values as the stand-alone Window iterator yields them, in the Float companion format
    let window_values = |bin: usize| {
        catch(|| {
            Window::<[<F::Sample as Sample>::Float; 1], W>::new(bin).take(bin).map(|f| f.channel(0).unwrap().enc()).collect::<Vec<Value>>()
        })
    };
    let wv = window_values(bin0);
    let built = catch(|| {
        if named { W::named_windower::<F>(&frames[..], bin0, hop0) } else { Windower::<F, W>::new(&frames[..], bin0, hop0) }
    });
    // up to three windower values: slot 0 = the one built here, the others are filled by `clone`
    let mut slots: Vec<Option<Windower<F, W>>> = vec![None, None, None];
    let wv = match (built, wv) {
        (Some(w), Some(v)) => {
            slots[0] = Some(w);
            v
        }
        _ => {
            out.line(&json!({"ev":"reset","comp":"windower","cfg":echo,"r":r_panic(),"o":{"ok":false,"wv":[]}}));
            return;
        }
    };
    out.line(&json!({"ev":"reset","comp":"windower","cfg":echo,"r":r_unit(),"o":{"ok":true,"wv":wv}}));
    let none_chunk = || json!({"k":"none","v":[]});
    for op in ops {
        let ev = op["ev"].as_str().unwrap();
        let a = &op["a"];
        let wi = a["w"].as_u64().unwrap_or(0) as usize;
        let via = a["via"].as_u64().unwrap_or(0);
        // a chunk holds the CURRENT bin size of the windower that yields it (public field, read by the driver
        // only to size its buffers and to know how many frames of the endless chunk to take)
        let bin = slots[wi].as_ref().map(|w| w.bin).unwrap_or(0);
        match ev {
            "next" | "nth" | "skip" | "find" => {
                // Iterator::next / nth(k) directly, through the Skip adaptor (whose first next() is nth(k)),
                // or find() with a predicate that first holds at its k-th call
                let k = a["k"].as_u64().unwrap_or(0) as usize;
                let wr = slots[wi].as_mut().expect("windower slot");
                let mut chunk: Vec<F> = Vec::with_capacity(bin);
                let mut calls = 0usize;
                let (r, h, _) = measured(|| {
                    catch(|| {
                        let got = match ev {
                            "next" => wr.next(),
                            "nth" => wr.nth(k),
                            "skip" => wr.by_ref().skip(k).next(),
                            _ => wr.find(|_| {
                                calls += 1;
                                calls > k
                            }),
                        };
                        match got {
                            None => false,
                            Some(c) => {
                                head(c, bin, via, &mut chunk);
                                true
                            }
                        }
                    })
                });
                let r = match r {
                    None => r_panic(),
                    Some(true) => r_some(enc_frames(&chunk)),
                    Some(false) => none_chunk(),
                };
                out.ev(ev, json!({"w": wi, "k": k, "via": via}), r, json!({"ok": true}), h);
            }
            "step_by" | "take" => {
                let st = a["s"].as_u64().unwrap_or(1) as usize;
                let m = a["m"].as_u64().unwrap() as usize;
                let wr = slots[wi].as_mut().expect("windower slot");
                let mut chunks: Vec<Vec<F>> = (0..m).map(|_| Vec::with_capacity(bin)).collect();
                let mut got = 0usize;
                let (r, h, _) = measured(|| {
                    catch(|| {
                        if ev == "take" {
                            for c in wr.by_ref().take(m) {
                                head(c, bin, via, &mut chunks[got]);
                                got += 1;
                            }
                        } else {
                            for c in wr.by_ref().step_by(st).take(m) {
                                head(c, bin, via, &mut chunks[got]);
                                got += 1;
                            }
                        }
                    })
                });
                let r = match r {
                    None => r_panic(),
                    Some(()) => r_items(Value::Array(chunks[..got].iter().map(|c| enc_frames(c)).collect())),
                };
                out.ev(ev, json!({"w": wi, "s": st, "m": m, "via": via}), r, json!({"ok": true}), h);
            }
            "position" | "any" | "all" => {
                // position / any with a predicate that first holds at its k-th call; all with one that first fails there
                let k = a["k"].as_u64().unwrap() as usize;
                let wr = slots[wi].as_mut().expect("windower slot");
                let mut calls = 0usize;
                // raw results only inside the measured window: (found, index) / the boolean as (answer, 0)
                let (r, h, _) = measured(|| {
                    catch(|| match ev {
                        "position" => match wr.position(|_| {
                            calls += 1;
                            calls > k
                        }) {
                            Some(i) => (true, i),
                            None => (false, 0),
                        },
                        "any" => (
                            wr.any(|_| {
                                calls += 1;
                                calls > k
                            }),
                            0,
                        ),
                        _ => (
                            wr.all(|_| {
                                calls += 1;
                                calls <= k
                            }),
                            0,
                        ),
                    })
                });
                let r = match (r, ev) {
                    (None, _) => r_panic(),
                    (Some((true, i)), "position") => json!({"k":"some","v": i}),
                    (Some((false, _)), "position") => json!({"k":"none","v": 0}),
                    (Some((x, _)), _) => r_val(json!(x)),
                };
                out.ev(ev, json!({"w": wi, "k": k}), r, json!({"ok": true}), h);
            }
            "count" => {
                let wr = slots[wi].take().expect("windower slot");
                let (r, h, _) = measured(|| catch(|| wr.count()));
                let r = match r {
                    None => r_panic(),
                    Some(n) => r_val(big_u(n as u128)),
                };
                out.ev("count", json!({"w": wi, "via": via}), r, json!({"ok": true}), h);
            }
            "last" => {
                let wr = slots[wi].take().expect("windower slot");
                let mut chunk: Vec<F> = Vec::with_capacity(bin);
                let (r, h, _) = measured(|| {
                    catch(|| match wr.last() {
                        None => false,
                        Some(c) => {
                            head(c, bin, via, &mut chunk);
                            true
                        }
                    })
                });
                let r = match r {
                    None => r_panic(),
                    Some(true) => r_some(enc_frames(&chunk)),
                    Some(false) => none_chunk(),
                };
                out.ev("last", json!({"w": wi, "via": via}), r, json!({"ok": true}), h);
            }
            "fold" | "for_each" => {
                // every remaining chunk; the buffers are sized generously from the public fields (no count is computed)
                let wr = slots[wi].take().expect("windower slot");
                let cap = wr.frames.len() / wr.hop.max(1) + 2;
                let mut chunks: Vec<Vec<F>> = (0..cap).map(|_| Vec::with_capacity(bin)).collect();
                let (r, h, _) = measured(|| {
                    catch(|| {
                        if ev == "fold" {
                            wr.fold(0usize, |got, c| {
                                if got < cap {
                                    head(c, bin, via, &mut chunks[got]);
                                }
                                got + 1
                            })
                        } else {
                            let mut got = 0usize;
                            wr.for_each(|c| {
                                if got < cap {
                                    head(c, bin, via, &mut chunks[got]);
                                }
                                got += 1;
                            });
                            got
                        }
                    })
                });
                let r = match r {
                    None => r_panic(),
                    Some(got) if got <= cap => r_items(Value::Array(chunks[..got].iter().map(|c| enc_frames(c)).collect())),
                    // more chunks than the buffers could hold: report the number as a (rejected) shape
                    Some(got) => json!({"k":"overflow","v": got}),
                };
                out.ev(ev, json!({"w": wi, "via": via}), r, json!({"ok": true}), h);
            }
            "clone" => {
                let to = a["to"].as_u64().unwrap() as usize;
                let c = catch(|| slots[wi].as_ref().expect("windower slot").clone());
                let ok = c.is_some();
                if ok {
                    slots[to] = c;
                }
                out.ev("clone", json!({"w": wi, "to": to}), if ok { r_unit() } else { r_panic() }, json!({"ok": true}), [0, 0, 0]);
            }
            "set_bin" => {
                let nb = a["b"].as_u64().unwrap() as usize;
                slots[wi].as_mut().expect("windower slot").bin = nb;
                let (r, wv) = match window_values(nb) {
                    Some(v) => (r_unit(), v),
                    None => (r_panic(), vec![]),
                };
                out.ev("set_bin", json!({"w": wi, "b": nb}), r, json!({"ok": true, "wv": wv}), [0, 0, 0]);
            }
            "set_hop" => {
                let nh = a["h"].as_u64().unwrap() as usize;
                slots[wi].as_mut().expect("windower slot").hop = nh;
                out.ev("set_hop", json!({"w": wi, "h": nh}), r_unit(), json!({"ok": true}), [0, 0, 0]);
            }
            "set_frames" => {
                // the public `frames` field assigned a sub-slice of the execution's frame array
                let off = a["off"].as_u64().unwrap() as usize;
                let len = a["len"].as_u64().unwrap() as usize;
                slots[wi].as_mut().expect("windower slot").frames = &frames[off..off + len];
                out.ev("set_frames", json!({"w": wi, "off": off, "len": len}), r_unit(), json!({"ok": true}), [0, 0, 0]);
            }
            "size_hint" => {
                let wr = slots[wi].as_ref().expect("windower slot");
                let (r, h, _) = measured(|| catch(|| wr.size_hint()));
                out.ev("size_hint", json!({"w": wi}), hint_json(r), json!({"ok": true}), h);
            }
            _ => panic!("unknown windower op {}", ev),
        }
    }
}

/// phases for the direct evaluation of the window functions: a rational num/den rounded into the
/// format, then moved by `ulps` units in the last place (floats) / LSBs (integers)
trait PhaseArg: Enc {
    fn from_ratio(num: i64, den: i64) -> Self;
    fn step(self, ulps: i64) -> Self;
}
fn key64(b: i64) -> i64 {
    // sign-magnitude bit pattern <-> monotone integer (an involution)
    if b < 0 { i64::MIN - b } else { b }
}
impl PhaseArg for f64 {
    fn from_ratio(num: i64, den: i64) -> f64 {
        num as f64 / den as f64
    }
    fn step(self, ulps: i64) -> f64 {
        f64::from_bits(key64(key64(self.to_bits() as i64) + ulps) as u64)
    }
}
impl PhaseArg for f32 {
    fn from_ratio(num: i64, den: i64) -> f32 {
        (num as f64 / den as f64) as f32
    }
    fn step(self, ulps: i64) -> f32 {
        let key = |b: i32| if b < 0 { i32::MIN - b } else { b };
        f32::from_bits(key(key(self.to_bits() as i32) + ulps as i32) as u32)
    }
}
impl PhaseArg for i16 {
    fn from_ratio(num: i64, den: i64) -> i16 {
        (num as f64 / den as f64 * 32768.0).round().clamp(-32768.0, 32767.0) as i16
    }
    fn step(self, ulps: i64) -> i16 {
        (self as i64 + ulps).clamp(-32768, 32767) as i16
    }
}

fn winfn<S, W>(out: &mut Out, cfg: &Value, ops: &[Value])
where
    S: PhaseArg,
    W: WindowType<S, Output = S>,
{
    out.line(&json!({"ev":"reset","comp":"winfn","cfg":cfg,"r":r_unit(),"o":{"ok":true}}));
    for op in ops {
        assert_eq!(op["ev"], "eval");
        let a = &op["a"];
        // either an explicit phase `p` (num/den then only name the rational it is meant to be, den = 0: none)
        // or num/den (+ ulps)
        let num = a["num"].as_i64().unwrap_or(0);
        let den = a["den"].as_i64().unwrap_or(0);
        let ulps = a["ulps"].as_i64().unwrap_or(0);
        let p: S = if a["p"].is_null() { S::from_ratio(num, den).step(ulps) } else { S::dec(&a["p"]) };
        let (r, h, _) = measured(|| catch(|| W::window(p)));
        let r = match r {
            None => r_panic(),
            Some(v) => r_val(v.enc()),
        };
        out.ev("eval", json!({"p": p.enc(), "num": num, "den": den, "ulps": ulps}), r, json!({"ok": true}), h);
    }
}

pub fn exec(out: &mut Out, ex: &[Value]) {
    let comp = ex[0]["comp"].as_str().unwrap();
    let cfg = &ex[0]["cfg"];
    let kind = cfg["kind"].as_str().unwrap();
    let fmt = cfg["fmt"].as_str().unwrap();
    let ops = &ex[1..];
    match comp {
        "window" => match (kind, fmt) {
            ("hann", "f64") => take_window::<f64, Hann>(out, cfg, ops),
            ("hann", "f32") => take_window::<f32, Hann>(out, cfg, ops),
            ("rect", "f64") => take_window::<f64, Rectangle>(out, cfg, ops),
            ("rect", "f32") => take_window::<f32, Rectangle>(out, cfg, ops),
            _ => panic!("unsupported window {} {}", kind, fmt),
        },
        "winfn" => match (kind, fmt) {
            ("hann", "f64") => winfn::<f64, Hann>(out, cfg, ops),
            ("hann", "f32") => winfn::<f32, Hann>(out, cfg, ops),
            ("hann", "i16") => winfn::<i16, Hann>(out, cfg, ops),
            ("rect", "f64") => winfn::<f64, Rectangle>(out, cfg, ops),
            ("rect", "f32") => winfn::<f32, Rectangle>(out, cfg, ops),
            ("rect", "i16") => winfn::<i16, Rectangle>(out, cfg, ops),
            _ => panic!("unsupported window function {} {}", kind, fmt),
        },
        "windower" => {
            let ch = cfg["ch"].as_u64().unwrap_or(1);
            macro_rules! go {
                ($w:ty) => {
                    match (fmt, ch) {
                        ("f64", 1) => windower::<[f64; 1], $w>(out, cfg, ops),
                        ("f32", 1) => windower::<[f32; 1], $w>(out, cfg, ops),
                        ("i16", 1) => windower::<[i16; 1], $w>(out, cfg, ops),
                        ("f64", 2) => windower::<[f64; 2], $w>(out, cfg, ops),
                        ("f32", 2) => windower::<[f32; 2], $w>(out, cfg, ops),
                        ("i16", 2) => windower::<[i16; 2], $w>(out, cfg, ops),
                        // round 5: unsigned formats (equilibrium 128 / 32768, not 0)
                        ("u8", 1) => windower::<[u8; 1], $w>(out, cfg, ops),
                        ("u8", 2) => windower::<[u8; 2], $w>(out, cfg, ops),
                        ("u16", 1) => windower::<[u16; 1], $w>(out, cfg, ops),
                        ("u16", 2) => windower::<[u16; 2], $w>(out, cfg, ops),
                        _ => panic!("unsupported frame type {} x {}", fmt, ch),
                    }
                };
            }
            match kind {
                "hann" => go!(Hann),
                "rect" => go!(Rectangle),
                _ => panic!("unknown window kind {}", kind),
            }
        }
        _ => panic!("unknown window component {}", comp),
    }
}

// ---------------------------------------------------------------------------------------- gen

/// the reset line with the constructor to use ("new" = Windower::new, "named" = Windower::hann / ::rectangle)
fn reset_c(reset: &Value, named: bool) -> Value {
    let mut r = reset.clone();
    r["cfg"]["ctor"] = json!(if named { "named" } else { "new" });
    r
}

pub fn gen(rng: &mut Rng, tier: &str, execs: &mut Vec<Vec<Value>>) {
    let thorough = tier == "thorough";
    // stand-alone windows: every n with (n-1) | 24 (special points), small n, random n <= 4096
    let mut ns: Vec<u64> = vec![2, 3, 4, 5, 7, 9, 13, 25];
    ns.extend(6..=(if thorough { 64 } else { 20 }));
    for _ in 0..(if thorough { 24 } else { 6 }) {
        ns.push(2 + rng.below(1023));
    }
    ns.push(4096);
    for n in ns {
        for (kind, fmt) in [("hann", "f64"), ("hann", "f32"), ("rect", "f64"), ("rect", "f32")] {
            if n > 64 && kind == "rect" && fmt == "f32" {
                continue;
            }
            let mut ex = vec![
                json!({"ev":"reset","comp":"window","cfg":{"kind":kind,"fmt":fmt,"n":n,"ctor": if rng.chance(1, 2) { "named" } else { "new" }}}),
                json!({"ev":"take","a":{"n":n}}),
            ];
            if rng.chance(1, 2) {
                // other instances (a fresh one, clones) advanced in other ways than next(): nth, step_by,
                // by_ref().take, the public phase field re-assigned
                ex.push(json!({"ev":"new","a":{"w":1}}));
                let mut have2 = false;
                for _ in 0..(4 + rng.below(5)) {
                    let w = if have2 { 1 + rng.below(2) } else { 1 };
                    ex.push(match rng.below(8) {
                        0 => json!({"ev":"next","a":{"w":w}}),
                        1 | 2 => json!({"ev":"nth","a":{"w":w,"k":rng.below(n / 3 + 2)}}),
                        3 => json!({"ev":"step_by","a":{"w":w,"s":1 + rng.below(3),"m":1 + rng.below(4)}}),
                        4 => json!({"ev":"takeby","a":{"w":w,"m":1 + rng.below(4)}}),
                        5 => json!({"ev":"size_hint","a":{"w":w}}),
                        6 => {
                            have2 = true;
                            json!({"ev":"clone","a":{"w":1,"to":2}})
                        }
                        _ => json!({"ev":"rewind","a":{"w":w}}),
                    });
                }
            }
            execs.push(ex);
        }
    }
    // windowers: random L <= 4096, bins 2..64, hops chosen so that the number of chunks stays moderate
    let count = if thorough { 240 } else { 40 };
    let combos: [(&str, usize); 8] = [("f64", 1), ("f32", 1), ("i16", 1), ("f64", 2), ("f32", 2), ("i16", 2), ("u8", 2), ("u16", 1)];
    for k in 0..count {
        let (fmt, ch) = combos[k % 8];
        let kind = if (k / 8) % 3 != 2 { "hann" } else { "rect" };
        let l = match rng.below(6) {
            0 => rng.below(8),
            1 => 4096,
            2 => rng.below(64),
            _ => rng.below(4097),
        } as usize;
        let b = match rng.below(5) {
            0 => 2,
            1 => (l.max(2)).min(64),          // L == b when L <= 64
            2 => 2 + rng.below(7) as usize,
            _ => 2 + rng.below(63) as usize,
        };
        let max_chunks = if thorough { 24 } else { 10 };
        let min_hop = (l / max_chunks).max(1);
        let h = match rng.below(5) {
            0 => min_hop,
            1 => b.max(min_hop),              // hop == bin
            2 => l + 1 + rng.below(4) as usize, // hop > L
            3 => (l.saturating_sub(b)).max(min_hop), // exactly two chunks when L > b
            _ => min_hop + rng.below(3 * min_hop as u64 + 1) as usize,
        };
        let fine = rng.chance(2, 3);
        let frames: Vec<Value> = (0..l)
            .map(|_| {
                Value::Array(
                    (0..ch)
                        .map(|_| {
                            let n = rng.range(-32768, 32767);
                            if (fmt != "f64" && fmt != "f32") || !fine {
                                json!(n)
                            } else {
                                let u = (rng.next() >> 11) as f64 / (1u64 << 53) as f64;
                                let x = (n as f64 + u) / 32768.0;
                                if fmt == "f32" { f32f(x as f32) } else { f64f(x) }
                            }
                        })
                        .collect(),
                )
            })
            .collect();
        // round 5: the VALUES of the frames (three windowers out of four): exact silence sprinkled over the array (whole
        // frames and single channels), runs of silence / of one repeated frame (lengths around the bin size), every second
        // frame silent, an all-silent or constant array.  The small-integer spec 0 is equilibrium in every format.
        let mut frames = frames;
        let silent = || Value::Array((0..ch).map(|_| json!(0)).collect());
        if l > 0 {
            match (k / 2) % 4 {
                1 => {
                    for i in 0..l {
                        match rng.below(8) {
                            0 | 1 => frames[i] = silent(),
                            2 => frames[i][rng.below(ch as u64) as usize] = json!(0),
                            _ => {}
                        }
                    }
                }
                2 => {
                    for kindr in 0..2 {
                        let r = (match rng.below(4) { 0 => 2, 1 => b - 1, 2 => b, _ => b + 1 + rng.below(b as u64) as usize }).clamp(1, l);
                        let z = rng.below((l - r + 1) as u64) as usize;
                        let f = if kindr == 0 { silent() } else { frames[z].clone() };
                        for i in z..(z + r) {
                            frames[i] = f.clone();
                        }
                    }
                }
                3 => {
                    let f0 = frames[0].clone();
                    let m = rng.below(3);
                    for i in 0..l {
                        match m {
                            0 => frames[i] = silent(),
                            1 => frames[i] = f0.clone(),
                            _ => {
                                if i % 2 == 0 {
                                    frames[i] = silent()
                                }
                            }
                        }
                    }
                }
                _ => {}
            }
        }
        let reset = json!({"ev":"reset","comp":"windower","cfg":{"kind":kind,"fmt":fmt,"ch":ch,"b":b,"h":h,"frames":frames}});
        let mut ex = vec![reset.clone()];
        // the driver just keeps asking, generously past any possible end (no chunk count is computed here)
        for _ in 0..(l / h + 3) {
            ex.push(json!({"ev":"size_hint","a":{}}));
            ex.push(json!({"ev":"next","a":{}}));
        }
        execs.push(ex);
        // the same windower advanced through nth / skip / step_by, mixed with next, a size hint after each.
        // `span` = how many hops fit between the first and the last possible chunk start: jumps of about that
        // size land on, just before and just past the last chunk (also the one that ends exactly at frame L)
        let span = (l.saturating_sub(b) / h) as u64;
        for v in 0..3u64 {
            let mut ex = vec![reset.clone(), json!({"ev":"size_hint","a":{}})];
            let mut left = span + 3;
            let mut first = true;
            while left > 0 {
                let jump = if first && v < 2 {
                    span.saturating_sub(v) // nth(span) / nth(span - 1) from the start
                } else {
                    match rng.below(4) {
                        0 => 0,
                        1 => left.saturating_sub(3), // onto the last chunk if nothing else was consumed
                        _ => rng.below(left.min(4) + 1),
                    }
                };
                let op = match (if first { v } else { rng.below(4) }, jump) {
                    (0, j) => json!({"ev":"nth","a":{"k":j}}),
                    (1, j) => json!({"ev":"skip","a":{"k":j}}),
                    (2, j) => json!({"ev":"step_by","a":{"s": 1 + rng.below(3), "m": 1 + j.min(4)}}),
                    _ => json!({"ev":"next","a":{}}),
                };
                first = false;
                ex.push(op);
                ex.push(json!({"ev":"size_hint","a":{}}));
                left = left.saturating_sub(jump + 1);
            }
            ex.push(json!({"ev":"next","a":{}}));
            ex.push(json!({"ev":"size_hint","a":{}}));
            execs.push(ex);
        }
        // round 4: the same windower used as a VALUE in the other ways Rust offers
        let hint = |w: u64| json!({"ev":"size_hint","a":{"w":w}});
        let next = |w: u64, via: u64| json!({"ev":"next","a":{"w":w,"via":via}});
        let drain = |ex: &mut Vec<Value>, w: u64, n: usize, rng: &mut Rng| {
            for _ in 0..n {
                ex.push(hint(w));
                ex.push(next(w, rng.below(7)));
            }
        };
        let terms = ["last", "count", "fold", "for_each"];
        // (A) a clone taken mid-run, both continued interleaved (and a clone of the clone), one of them finally
        //     consumed by last / count / fold / for_each
        {
            let mut ex = vec![reset_c(&reset, rng.chance(1, 2))];
            for _ in 0..rng.below(span.min(3) + 1) {
                ex.push(next(0, 0));
            }
            ex.push(json!({"ev":"clone","a":{"w":0,"to":1}}));
            ex.push(hint(1));
            let third = rng.chance(1, 2);
            let mut left = span + 3;
            while left > 0 {
                let w = rng.below(if third { 3 } else { 2 });
                if w == 2 && ex.iter().all(|e| e["a"]["to"] != 2) {
                    ex.push(json!({"ev":"clone","a":{"w":1,"to":2}}));
                }
                match rng.below(5) {
                    0 => ex.push(json!({"ev":"nth","a":{"w":w,"k":rng.below(3),"via":rng.below(7)}})),
                    1 => ex.push(json!({"ev":"take","a":{"w":w,"m":1 + rng.below(3),"via":rng.below(7)}})),
                    _ => ex.push(next(w, rng.below(7))),
                }
                ex.push(hint(w));
                if w == 0 {
                    left -= 1;
                }
            }
            let victim = rng.below(2);
            ex.push(json!({"ev": *rng.pick(&terms), "a":{"w":victim,"via":rng.below(7)}}));
            drain(&mut ex, 1 - victim, (span as usize + 3).min(l / h + 3), rng);
            execs.push(ex);
        }
        // (B) the searching methods aimed around the end, then a consuming method on what is left
        for v in 0..2u64 {
            let mut ex = vec![reset_c(&reset, v == 1), hint(0)];
            let pre = rng.below(span.min(2) + 1);
            for _ in 0..pre {
                ex.push(next(0, 1));
            }
            let j = match rng.below(3) {
                0 => span.saturating_sub(pre),          // the chunk that may end exactly at frame L
                1 => (span + 1).saturating_sub(pre),    // one past it
                _ => rng.below(span + 2),
            };
            let e = *rng.pick(&["find", "position", "any", "all"]);
            if v == 0 {
                ex.push(json!({"ev": e, "a":{"w":0,"k":j,"via":rng.below(7)}}));
                ex.push(hint(0));
            } else if j > 0 {
                ex.push(json!({"ev": e, "a":{"w":0,"k":j - 1,"via":rng.below(7)}}));
                ex.push(hint(0));
            }
            ex.push(json!({"ev": terms[(k + v as usize) % 4], "a":{"w":0,"via":rng.below(7)}}));
            execs.push(ex);
        }
        // (C) the public fields assigned between calls: bin (2..64), hop (never so small that the run explodes),
        //     frames (any sub-slice of the array, also a longer one than what was left = rewinding)
        for v in 0..3u64 {
            let mut ex = vec![reset_c(&reset, v == 2), hint(0)];
            let mut smallest_hop = h;
            for round in 0..(1 + rng.below(3)) {
                for _ in 0..rng.below(span.min(3) + 1) {
                    ex.push(next(0, rng.below(7)));
                    ex.push(hint(0));
                }
                let what = if round == 0 { v } else { rng.below(3) };
                match what {
                    0 => {
                        let nb = match rng.below(4) {
                            0 => 2,
                            1 => b + 1,
                            2 => (b.max(3)) - 1,
                            _ => 2 + rng.below(63) as usize,
                        };
                        ex.push(json!({"ev":"set_bin","a":{"w":0,"b":nb}}));
                    }
                    1 => {
                        let nh = match rng.below(4) {
                            0 => min_hop,
                            1 => b.max(min_hop),
                            2 => h + 1,
                            _ => min_hop + rng.below(3 * min_hop as u64 + 1) as usize,
                        };
                        smallest_hop = smallest_hop.min(nh);
                        ex.push(json!({"ev":"set_hop","a":{"w":0,"h":nh}}));
                    }
                    _ => {
                        let off = match rng.below(3) {
                            0 => 0,
                            _ => rng.below(l as u64 + 1) as usize,
                        };
                        let len = match rng.below(3) {
                            0 => l - off,
                            _ => rng.below((l - off) as u64 + 1) as usize,
                        };
                        ex.push(json!({"ev":"set_frames","a":{"w":0,"off":off,"len":len}}));
                    }
                }
                ex.push(hint(0));
                if rng.chance(1, 3) {
                    // a clone taken after the assignment runs to its end on its own
                    ex.push(json!({"ev":"clone","a":{"w":0,"to":1}}));
                    drain(&mut ex, 1, l / smallest_hop + 3, rng);
                }
            }
            drain(&mut ex, 0, l / smallest_hop + 3, rng);
            execs.push(ex);
        }
    }
    // the window functions evaluated directly: the points k/24, i/(n-1), both ends, one ulp around them,
    // arbitrary phases in [0, 1]; the rectangle also well outside [0, 1]
    for (kind, fmt) in [("hann", "f64"), ("hann", "f32"), ("hann", "i16"), ("rect", "f64"), ("rect", "f32"), ("rect", "i16")] {
        let mut ex = vec![json!({"ev":"reset","comp":"winfn","cfg":{"kind":kind,"fmt":fmt}})];
        let ev = |num: i64, den: i64, ulps: i64| json!({"ev":"eval","a":{"num":num,"den":den,"ulps":ulps}});
        for &(n, d) in &[(0i64, 1i64), (1, 2), (1, 1)] {
            for u in -1..=1 {
                ex.push(ev(n, d, u));
            }
        }
        for _ in 0..(if thorough { 160 } else { 40 }) {
            let den = match rng.below(4) {
                0 => 24,
                1 => 1 + rng.below(48) as i64,
                2 => 1 << rng.below(12),
                _ => 1 + rng.below(4096) as i64,
            };
            let num = if kind == "rect" && rng.chance(1, 3) { rng.range(-2 * den, 3 * den) } else { rng.range(0, den) };
            ex.push(ev(num, den, if rng.chance(1, 4) { rng.range(-3, 3) } else { 0 }));
        }
        if fmt != "i16" {
            // full-precision phases in [0, 1) (and, for the rectangle, in [-2, 3))
            for _ in 0..(if thorough { 40 } else { 10 }) {
                let u = (rng.next() >> 11) as f64 / (1u64 << 53) as f64;
                let x = if kind == "rect" { 5.0 * u - 2.0 } else { u };
                let p = if fmt == "f32" { f32f(x as f32) } else { f64f(x) };
                ex.push(json!({"ev":"eval","a":{"p":p,"num":0,"den":0,"ulps":0}}));
            }
        }
        execs.push(ex);
    }
}
