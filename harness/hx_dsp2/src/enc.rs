//! Sample encodings shared by the three drivers: integers as limb records, floats as IEEE
//! fields.  A *sample spec* in a stimulus is either a small JSON integer n (i16: the value n,
//! floats: n / 2^15, exact; i32: n * 2^20 + an odd 20-bit pattern derived from n, i.e. a value
//! near full scale for |n| ~ 2000 whose significand needs more than the 24 bits of an f32) or an
//! already encoded value.  The trace always carries the value that was actually used.
use dasp_frame::Frame;
use dasp_sample::Sample;
use hx_common::*;
use serde_json::Value;

pub trait Enc: Sample + Copy {
    const FMT: &'static str;
    fn enc(self) -> Value;
    fn dec(v: &Value) -> Self;
    /// x * 2^k in the format's own arithmetic (floats: multiplication by a power of two; integers: shift)
    fn scale2(self, k: i32) -> Self;
    /// a + b in the format's own arithmetic
    fn plus(self, o: Self) -> Self;
    /// sample spec -> value where sums of several values must stay in range (`sinc_lin`, `sinc_clin`): the same as
    /// `dec` except for the 32-bit formats, whose small-integer specs n become n * 2^14 + a 14-bit pattern that is a
    /// multiple of 8 (|value| < 2^26, more significant bits than an f32 holds, exactly divisible by 2^k for k >= -3)
    fn dec_lin(v: &Value) -> Self {
        Self::dec(v)
    }
}
fn lin32(n: i64) -> i64 {
    if n == 0 {
        return 0;
    }
    n.clamp(-4000, 4000) * 16384 + (((n.wrapping_mul(0x9E37_79B1) >> 7) & 0x3FF8) | 8)
}
impl Enc for f64 {
    const FMT: &'static str = "f64";
    fn enc(self) -> Value {
        f64f(self)
    }
    fn dec(v: &Value) -> f64 {
        match v.as_i64() {
            Some(n) => n as f64 / 32768.0,
            None => unf64(v),
        }
    }
    fn scale2(self, k: i32) -> f64 {
        self * 2f64.powi(k)
    }
    fn plus(self, o: f64) -> f64 {
        self + o
    }
}
impl Enc for f32 {
    const FMT: &'static str = "f32";
    fn enc(self) -> Value {
        f32f(self)
    }
    fn dec(v: &Value) -> f32 {
        match v.as_i64() {
            Some(n) => n as f32 / 32768.0,
            None => unf32(v),
        }
    }
    fn scale2(self, k: i32) -> f32 {
        self * 2f32.powi(k)
    }
    fn plus(self, o: f32) -> f32 {
        self + o
    }
}
impl Enc for i16 {
    const FMT: &'static str = "i16";
    fn enc(self) -> Value {
        big(self as i128)
    }
    fn dec(v: &Value) -> i16 {
        match v.as_i64() {
            Some(n) => n as i16,
            None => unbig(v) as i16,
        }
    }
    fn scale2(self, k: i32) -> i16 {
        if k >= 0 {
            self << k
        } else {
            self >> (-k)
        }
    }
    fn plus(self, o: i16) -> i16 {
        self + o
    }
}

impl Enc for i32 {
    const FMT: &'static str = "i32";
    fn enc(self) -> Value {
        big(self as i128)
    }
    fn dec(v: &Value) -> i32 {
        match v.as_i64() {
            Some(0) => 0,
            Some(n) => {
                // |n| < 2047: n * 2^20 plus odd low bits (all 31 value bits in use)
                let low = ((n.wrapping_mul(0x9E37_79B1) >> 7) & 0xF_FFFF) | 1;
                (n.clamp(-2046, 2046) * (1 << 20) + low) as i32
            }
            None => unbig(v) as i32,
        }
    }
    fn scale2(self, k: i32) -> i32 {
        if k >= 0 {
            self << k
        } else {
            self >> (-k)
        }
    }
    fn plus(self, o: i32) -> i32 {
        self + o
    }
    fn dec_lin(v: &Value) -> i32 {
        match v.as_i64() {
            Some(n) => lin32(n) as i32,
            None => unbig(v) as i32,
        }
    }
}

// round 4b: the narrow and the unsigned integer formats.  A small-integer sample spec n (i16 units) is the
// *amplitude* (distance from equilibrium): i8 n / 256, u8 the same + 128, u16 n + 32768, u32 the i32 value + 2^31.
// `plus` / `scale2` act on amplitudes (what "a + b" and "2^k a" mean for a format whose equilibrium is not 0).
impl Enc for i8 {
    const FMT: &'static str = "i8";
    fn enc(self) -> Value {
        big(self as i128)
    }
    fn dec(v: &Value) -> i8 {
        match v.as_i64() {
            Some(n) => (n / 256).clamp(-128, 127) as i8,
            None => unbig(v) as i8,
        }
    }
    fn scale2(self, k: i32) -> i8 {
        if k >= 0 {
            self << k
        } else {
            self >> (-k)
        }
    }
    fn plus(self, o: i8) -> i8 {
        self + o
    }
}
macro_rules! enc_unsigned {
    ($U:ty, $S:ty, $fmt:expr, $half:expr) => {
        impl Enc for $U {
            const FMT: &'static str = $fmt;
            fn enc(self) -> Value {
                big(self as i128)
            }
            fn dec(v: &Value) -> $U {
                match v.as_i64() {
                    Some(_) => (<$S as Enc>::dec(v) as i64 + $half) as $U,
                    None => unbig(v) as $U,
                }
            }
            fn scale2(self, k: i32) -> $U {
                let a = self as i64 - $half;
                let a = if k >= 0 { a << k } else { a >> (-k) };
                <$U>::try_from(a + $half).expect("scaled amplitude out of range")
            }
            fn plus(self, o: $U) -> $U {
                <$U>::try_from((self as i64 - $half) + (o as i64 - $half) + $half).expect("amplitude sum out of range")
            }
            fn dec_lin(v: &Value) -> $U {
                match v.as_i64() {
                    Some(_) => (<$S as Enc>::dec_lin(v) as i64 + $half) as $U,
                    None => unbig(v) as $U,
                }
            }
        }
    };
}
enc_unsigned!(u8, i8, "u8", 128i64);
enc_unsigned!(u16, i16, "u16", 32768i64);
enc_unsigned!(u32, i32, "u32", 2147483648i64);

pub fn enc_frame<F: Frame>(f: F) -> Value
where
    F::Sample: Enc,
{
    Value::Array(f.channels().map(|s| s.enc()).collect())
}
pub fn dec_frame<F: Frame>(v: &Value) -> F
where
    F::Sample: Enc,
{
    let a = v.as_array().expect("frame spec = array of samples");
    assert_eq!(a.len(), F::CHANNELS, "channel count");
    F::from_fn(|c| <F::Sample as Enc>::dec(&a[c]))
}
pub fn dec_frame_lin<F: Frame>(v: &Value) -> F
where
    F::Sample: Enc,
{
    let a = v.as_array().expect("frame spec = array of samples");
    assert_eq!(a.len(), F::CHANNELS, "channel count");
    F::from_fn(|c| <F::Sample as Enc>::dec_lin(&a[c]))
}
pub fn enc_frames<F: Frame>(fs: &[F]) -> Value
where
    F::Sample: Enc,
{
    Value::Array(fs.iter().map(|f| enc_frame(*f)).collect())
}
