//! hx_dsp2: drivers + loggers for the `dsp2` family
//!   C17 oscillators and noise            (components osc, noise)           -> spec/Trace_Osc.tla
//!   C18 sinc interpolation               (sinc, sinc_conv, sinc_lin, sinc_clin)     -> spec/Trace_Sinc.tla
//!   C20 window functions and windower    (window, windower, winfn)         -> spec/Trace_Window.tla
//! `hx_dsp2 run <stimuli> <trace>` executes stimuli (from TLC's MC_* runs or from `gen`) on the real
//! crates and logs every call at its return.  `hx_dsp2 gen <seed> <quick|thorough> <stimuli> <osc|sinc|window>`
//! writes seeded random stimuli.  No expected values, no assertions about dasp's results.
mod enc;
mod osc;
mod sinc;
mod window;
use hx_common::*;

#[global_allocator]
static A: CountingAlloc = CountingAlloc;

fn main() {
    let c = cli();
    silence_panics();
    match c.mode.as_str() {
        "gen" => {
            let seed: u64 = c.a1.parse().expect("seed");
            let fam = std::env::args().nth(5).unwrap_or_else(|| "all".to_string());
            let mut execs = Vec::new();
            // independent streams per family so that one family's generator does not shift another's
            if fam == "osc" || fam == "all" {
                osc::gen(&mut Rng::new(seed ^ 0x17), &c.a2, &mut execs);
            }
            if fam == "sinc" || fam == "all" {
                sinc::gen(&mut Rng::new(seed ^ 0x18), &c.a2, &mut execs);
            }
            if fam == "window" || fam == "all" {
                window::gen(&mut Rng::new(seed ^ 0x20), &c.a2, &mut execs);
            }
            write_stimuli(&c.a3, &execs);
        }
        "run" => {
            let n = drive(&c.a1, &c.a2, |out, ex| match ex[0]["comp"].as_str().unwrap() {
                "osc" => osc::osc_exec(out, ex),
                "noise" => osc::noise_exec(out, ex),
                "sinc" | "sinc_conv" | "sinc_lin" | "sinc_clin" => sinc::exec(out, ex),
                "window" | "windower" | "winfn" => window::exec(out, ex),
                c => panic!("unknown component {}", c),
            });
            eprintln!("hx_dsp2: {} events", n);
        }
        _ => {
            eprintln!("usage: hx_dsp2 run <stimuli> <trace> | gen <seed> <quick|thorough> <stimuli> [osc|sinc|window]");
            std::process::exit(2);
        }
    }
}
