//! C17 driver: oscillators (phase / sine / saw / square / simplex noise) over `rate(r).const_hz(h)`
//! and `rate(r).hz(signal)`, and the seeded `noise` source.  Drivers and loggers only.
//!
//! One `osc` execution runs every oscillator kind in lock-step on the same frequency sequence,
//! each on its OWN step source, so that one `next` event shows, for the same frame,
//!   ph      what `Phase::next_phase` yielded (the oscillators' phase is private; a `Phase` built
//!           from an identical step source is the public observation of it)
//!   q       what `Step::step` yielded (the phase increment hz / rate)
//!   sine / saw / square / simplex   the four outputs
//!   anti / aph   (hz mode) sine and phase of a twin that was first advanced by half a period
//!   pulls   how many frequency frames each instrumented hz signal has been asked for
use dasp_signal::{self as signal, ConstHz, Hz, Noise, NoiseSimplex, Phase, Saw, Signal, Sine, Square, Step};
use hx_common::*;
use serde_json::{json, Value};
use std::cell::Cell;
use std::rc::Rc;

/// Instrumented frequency signal: run-length encoded plan, counts how often it is pulled.
/// `exh >= 0`: the signal reports `is_exhausted()` once `exh` frames have been pulled from it, but goes
/// on yielding its programmed frequencies (as `from_iter(dev).offset_amp(base)` does: adaptors forward
/// `is_exhausted` of the finite part while their own output stays non-zero).  `exh < 0`: never exhausted.
pub struct HzSrc {
    plan: Rc<Vec<(f64, u64)>>,
    seg: usize,
    used: u64,
    pulls: Pulls,
    exh: i64,
}
/// pull counter: registered with the execution (shared) or private to a clone (no allocation on clone)
enum Pulls {
    Shared(Rc<Cell<u64>>),
    Own(Cell<u64>),
}
impl Pulls {
    fn get(&self) -> u64 {
        match self {
            Pulls::Shared(c) => c.get(),
            Pulls::Own(c) => c.get(),
        }
    }
    fn bump(&self) {
        match self {
            Pulls::Shared(c) => c.set(c.get() + 1),
            Pulls::Own(c) => c.set(c.get() + 1),
        }
    }
}
/// A clone continues the same programme from the same position with a pull counter OF ITS OWN (so that
/// looking ahead through a cloned oscillator does not disturb the counts logged for the original).
impl Clone for HzSrc {
    fn clone(&self) -> Self {
        HzSrc { plan: self.plan.clone(), seg: self.seg, used: self.used, pulls: Pulls::Own(Cell::new(self.pulls.get())), exh: self.exh }
    }
}
/// what a source with threshold `exh` that has been pulled `pulls` times answers to `is_exhausted()`
fn reports_exhausted(exh: i64, pulls: u64) -> bool {
    exh >= 0 && pulls >= exh as u64
}
impl Signal for HzSrc {
    type Frame = f64;
    fn is_exhausted(&self) -> bool {
        reports_exhausted(self.exh, self.pulls.get())
    }
    fn next(&mut self) -> f64 {
        self.pulls.bump();
        while self.seg < self.plan.len() && self.used >= self.plan[self.seg].1 {
            self.seg += 1;
            self.used = 0;
        }
        if self.seg < self.plan.len() {
            self.used += 1;
            self.plan[self.seg].0
        } else {
            0.0
        }
    }
}

struct Set<S: Step> {
    phase: Phase<S>,
    sine: Sine<S>,
    saw: Saw<S>,
    square: Square<S>,
    simplex: NoiseSimplex<S>,
    stepper: S,
    anti: Option<(Sine<S>, Phase<S>)>,
    pulls: Vec<Rc<Cell<u64>>>,
    apulls: Vec<Rc<Cell<u64>>>,
    exh: i64,
}

fn build_const(rate: f64, hz: f64) -> Set<ConstHz> {
    Set {
        phase: signal::rate(rate).const_hz(hz).phase(),
        sine: signal::rate(rate).const_hz(hz).sine(),
        saw: signal::rate(rate).const_hz(hz).saw(),
        square: signal::rate(rate).const_hz(hz).square(),
        simplex: signal::rate(rate).const_hz(hz).noise_simplex(),
        stepper: signal::rate(rate).const_hz(hz),
        anti: None,
        pulls: vec![],
        apulls: vec![],
        exh: -1,
    }
}
fn build_hz(rate: f64, plan: Vec<(f64, u64)>, exh: i64) -> Set<Hz<HzSrc>> {
    let plan = Rc::new(plan);
    let mut shifted = vec![(rate / 2.0, 1u64)];
    shifted.extend(plan.iter().cloned());
    let shifted = Rc::new(shifted);
    let mut pulls = vec![];
    let mut apulls = vec![];
    let src = |p: &Rc<Vec<(f64, u64)>>, reg: &mut Vec<Rc<Cell<u64>>>| {
        let c = Rc::new(Cell::new(0));
        reg.push(c.clone());
        HzSrc { plan: p.clone(), seg: 0, used: 0, pulls: Pulls::Shared(c), exh }
    };
    let phase = signal::rate(rate).hz(src(&plan, &mut pulls)).phase();
    let sine = signal::rate(rate).hz(src(&plan, &mut pulls)).sine();
    let saw = signal::rate(rate).hz(src(&plan, &mut pulls)).saw();
    let square = signal::rate(rate).hz(src(&plan, &mut pulls)).square();
    let simplex = signal::rate(rate).hz(src(&plan, &mut pulls)).noise_simplex();
    let stepper = signal::rate(rate).hz(src(&plan, &mut pulls));
    // the half-period twins: one extra leading frequency frame of rate/2 (phase 0 -> 1/2)
    let mut asine = signal::sine(signal::phase(signal::rate(rate).hz(src(&shifted, &mut apulls))));
    let mut aphase = signal::phase(signal::rate(rate).hz(src(&shifted, &mut apulls)));
    let _ = catch(|| {
        asine.next();
        aphase.next_phase();
    });
    Set { phase, sine, saw, square, simplex, stepper, anti: Some((asine, aphase)), pulls, apulls, exh }
}

fn counts(v: &[Rc<Cell<u64>>]) -> Value {
    json!(v.iter().map(|c| c.get()).collect::<Vec<u64>>())
}
/// what each instrumented frequency signal answers to `is_exhausted()` right now
fn exhd(v: &[Rc<Cell<u64>>], exh: i64) -> Value {
    json!(v.iter().map(|c| reports_exhausted(exh, c.get())).collect::<Vec<bool>>())
}

fn hz_of(a: &Value) -> (f64, i64) {
    if let Some(h) = a["hzi"].as_i64() {
        if h >= 0 {
            return (h as f64, h);
        }
    }
    (unf64(&a["hz"]), -1)
}

fn run_set<S: Step + Clone + Signal<Frame = f64>>(out: &mut Out, mut set: Set<S>, ops: &[Value], const_hz: Option<(f64, i64)>) {
    for op in ops {
        let ev = op["ev"].as_str().unwrap();
        if ev == "peek" {
            // look ahead m frames through CLONES of every oscillator, each consumed by the provided
            // `Signal::take` on the concrete type; the originals are not touched
            let m = op["a"]["m"].as_u64().unwrap() as usize;
            let mut v: Vec<Vec<f64>> = (0..6).map(|_| Vec::with_capacity(m)).collect();
            let (r, h, _) = measured(|| {
                catch(|| {
                    v[0].extend(set.phase.clone().take(m));
                    v[1].extend(set.stepper.clone().take(m));
                    v[2].extend(set.sine.clone().take(m));
                    v[3].extend(set.saw.clone().take(m));
                    v[4].extend(set.square.clone().take(m));
                    v[5].extend(set.simplex.clone().take(m));
                })
            });
            let arr = |x: &Vec<f64>| Value::Array(x.iter().map(|y| f64f(*y)).collect());
            let r = match r {
                None => r_panic(),
                Some(()) => r_val(json!({"ph": arr(&v[0]), "q": arr(&v[1]), "sine": arr(&v[2]), "saw": arr(&v[3]),
                    "square": arr(&v[4]), "simplex": arr(&v[5])})),
            };
            out.ev("peek", json!({"m": m}), r, json!({"ok": true, "pulls": counts(&set.pulls)}), h);
            continue;
        }
        let (hz, hzi) = const_hz.unwrap_or_else(|| hz_of(&op["a"]));
        match ev {
            "next" => {
                let mut v = [0f64; 8];
                let has_anti = set.anti.is_some();
                let (r, h, _) = measured(|| {
                    catch(|| {
                        v[0] = set.phase.next_phase();
                        v[1] = set.stepper.step();
                        v[2] = set.sine.next();
                        v[3] = set.saw.next();
                        v[4] = set.square.next();
                        v[5] = set.simplex.next();
                        if let Some((s, p)) = set.anti.as_mut() {
                            v[6] = s.next();
                            v[7] = p.next_phase();
                        }
                    })
                });
                let r = match r {
                    None => r_panic(),
                    Some(()) => r_val(json!({"ph": f64f(v[0]), "q": f64f(v[1]), "sine": f64f(v[2]), "saw": f64f(v[3]),
                        "square": f64f(v[4]), "simplex": f64f(v[5]), "anti": f64f(v[6]), "aph": f64f(v[7])})),
                };
                out.ev(
                    "next",
                    json!({"hz": f64f(hz), "hzi": hzi}),
                    r,
                    json!({"ok": true, "has_anti": has_anti, "pulls": counts(&set.pulls), "apulls": counts(&set.apulls),
                        "exhd": exhd(&set.pulls, set.exh)}),
                    h,
                );
            }
            "agg" => {
                // a long run reported as extremes (judged by the trace spec against [-1, 1] / [0, 1))
                let n = op["a"]["n"].as_u64().unwrap();
                let mut lo = [f64::INFINITY; 5];
                let mut hi = [f64::NEG_INFINITY; 5];
                let mut nonfinite = 0u64;
                let (r, h, _) = measured(|| {
                    catch(|| {
                        for _ in 0..n {
                            let x = [set.phase.next_phase(), set.sine.next(), set.saw.next(), set.square.next(), set.simplex.next()];
                            set.stepper.step();
                            for k in 0..5 {
                                if !x[k].is_finite() {
                                    nonfinite += 1;
                                } else {
                                    if x[k] < lo[k] {
                                        lo[k] = x[k];
                                    }
                                    if x[k] > hi[k] {
                                        hi[k] = x[k];
                                    }
                                }
                            }
                        }
                    })
                });
                let enc = |a: &[f64; 5]| Value::Array(a.iter().map(|x| f64f(*x)).collect());
                let r = match r {
                    None => r_panic(),
                    Some(()) => r_val(json!({"lo": enc(&lo), "hi": enc(&hi), "nonfinite": nonfinite})),
                };
                out.ev(
                    "agg",
                    json!({"hz": f64f(hz), "hzi": hzi, "n": n}),
                    r,
                    json!({"ok": true, "pulls": counts(&set.pulls), "exhd": exhd(&set.pulls, set.exh)}),
                    h,
                );
            }
            _ => panic!("unknown osc op {}", ev),
        }
    }
}

pub fn osc_exec(out: &mut Out, ex: &[Value]) {
    let cfg = &ex[0]["cfg"];
    let mode = cfg["mode"].as_str().unwrap().to_string();
    let (rate, ratei) = match cfg["ratei"].as_i64() {
        Some(r) if r >= 0 => (r as f64, r),
        _ => (unf64(&cfg["rate"]), -1),
    };
    let ops = &ex[1..];
    // hz mode only: the frequency signals report exhaustion after `exh` pulls (and keep yielding)
    let exh = if mode == "hz" { cfg["exh"].as_i64().unwrap_or(-1).max(-1) } else { -1 };
    let cfg_out = json!({"mode": mode, "rate": f64f(rate), "ratei": ratei, "exh": exh});
    if mode == "const" {
        let first = ops.iter().find(|op| op["ev"] != "peek").map(|op| hz_of(&op["a"])).unwrap_or((0.0, 0));
        match catch(|| build_const(rate, first.0)) {
            None => out.line(&json!({"ev":"reset","comp":"osc","cfg":cfg_out,"r":r_panic(),"o":{"ok":false}})),
            Some(set) => {
                out.line(&json!({"ev":"reset","comp":"osc","cfg":cfg_out,"r":r_unit(),"o":{"ok":true}}));
                run_set(out, set, ops, Some(first));
            }
        }
    } else {
        let plan: Vec<(f64, u64)> = ops
            .iter()
            .filter(|op| op["ev"] != "peek")
            .map(|op| (hz_of(&op["a"]).0, if op["ev"] == "agg" { op["a"]["n"].as_u64().unwrap() } else { 1 }))
            .collect();
        match catch(|| build_hz(rate, plan, exh)) {
            None => out.line(&json!({"ev":"reset","comp":"osc","cfg":cfg_out,"r":r_panic(),"o":{"ok":false}})),
            Some(set) => {
                out.line(&json!({"ev":"reset","comp":"osc","cfg":cfg_out,"r":r_unit(),"o":{"ok":true}}));
                run_set(out, set, ops, None);
            }
        }
    }
}

// ---------------------------------------------------------------------------------------- noise

pub fn noise_exec(out: &mut Out, ex: &[Value]) {
    let cfg = &ex[0]["cfg"];
    let seed = unbig(&cfg["seed"]) as u64;
    let mut inst: Vec<Option<Noise>> = vec![None, None, None];
    let made = catch(|| signal::noise(seed));
    let ok = made.is_some();
    inst[0] = made;
    // `cross` / `at` are the stimulus' CLAIM (echoed, never used here): the counter seed + at takes the listed
    // operations of the hash chain across 2^64; Trace_Osc verifies the claim on exact naturals
    let cross = cfg.get("cross").cloned().unwrap_or_else(|| json!([]));
    let at = cfg.get("at").and_then(|v| v.as_u64()).unwrap_or(0);
    out.line(&json!({"ev":"reset","comp":"noise","cfg":{"seed": big_u(seed as u128), "cross": cross, "at": at},
        "r": if ok { r_unit() } else { r_panic() },"o":{"ok":ok}}));
    if !ok {
        return;
    }
    for op in &ex[1..] {
        let ev = op["ev"].as_str().unwrap();
        let a = &op["a"];
        let i = a["inst"].as_u64().unwrap_or(0) as usize;
        match ev {
            "next" => {
                let mut v = 0f64;
                let (r, h, _) = measured(|| catch(|| v = inst[i].as_mut().expect("instance").next()));
                out.ev("next", a.clone(), if r.is_some() { r_val(f64f(v)) } else { r_panic() }, json!({"ok": true}), h);
            }
            "clone" => {
                let from = a["from"].as_u64().unwrap() as usize;
                let c = catch(|| inst[from].as_ref().expect("instance").clone());
                let okc = c.is_some();
                inst[i] = c;
                out.ev("clone", a.clone(), if okc { r_unit() } else { r_panic() }, json!({"ok": true}), [0, 0, 0]);
            }
            "peek" => {
                // the next m values of a CLONE of the instance, through the provided `Signal::take`
                let m = a["m"].as_u64().unwrap() as usize;
                let mut v: Vec<f64> = Vec::with_capacity(m);
                let (r, h, _) = measured(|| catch(|| v.extend(inst[i].as_ref().expect("instance").clone().take(m))));
                let r = if r.is_some() { r_val(Value::Array(v.iter().map(|y| f64f(*y)).collect())) } else { r_panic() };
                out.ev("peek", a.clone(), r, json!({"ok": true}), h);
            }
            "restart" => {
                let c = catch(|| signal::noise(seed));
                let okc = c.is_some();
                inst[i] = c;
                out.ev("restart", a.clone(), if okc { r_unit() } else { r_panic() }, json!({"ok": true}), [0, 0, 0]);
            }
            "agg" => {
                let n = a["n"].as_u64().unwrap();
                let (mut lo, mut hi, mut nonfinite) = (f64::INFINITY, f64::NEG_INFINITY, 0u64);
                let (r, h, _) = measured(|| {
                    catch(|| {
                        let s = inst[i].as_mut().expect("instance");
                        for _ in 0..n {
                            let x = s.next();
                            if !x.is_finite() {
                                nonfinite += 1;
                            } else {
                                if x < lo {
                                    lo = x;
                                }
                                if x > hi {
                                    hi = x;
                                }
                            }
                        }
                    })
                });
                let r = if r.is_some() { r_val(json!({"lo": f64f(lo), "hi": f64f(hi), "nonfinite": nonfinite})) } else { r_panic() };
                out.ev("agg", a.clone(), r, json!({"ok": true}), h);
            }
            _ => panic!("unknown noise op {}", ev),
        }
    }
}

// ---------------------------------------------------------------------------------------- gen

fn hz_op(hz: f64) -> Value {
    json!({"ev":"next","a":{"hz": f64f(hz), "hzi": -1}})
}
fn hzi_op(h: i64) -> Value {
    json!({"ev":"next","a":{"hzi": h}})
}

/// an arbitrary finite non-negative frequency for the given rate
fn any_hz(rng: &mut Rng, rate: f64) -> f64 {
    let u = (rng.next() >> 11) as f64 / (1u64 << 53) as f64;
    match rng.below(16) {
        0 => 0.0,
        1 => rate,                                        // step exactly 1
        2 => rate * (1 + rng.below(5)) as f64 + u,        // several whole turns per frame
        3 => rate / (1u64 << rng.below(20)) as f64,       // exact binary fraction of the rate
        4 => f64::from_bits(rng.below(1 << 52)),          // subnormal
        5 => u * rate * 1e6,                              // far above the rate
        6 => 2f64.powi(rng.range(-60, 40) as i32) * (1.0 + u),
        7 => rate * 0.5,
        8 => rate * (1.0 - f64::EPSILON),
        9 => 1e300 * (1.0 + u),                           // step ~ 1e295: finite, phase absorbs
        10 => rate / 24.0 * (1 + rng.below(48)) as f64,
        _ => u * 20000.0,                                 // audio range
    }
}

pub fn gen(rng: &mut Rng, tier: &str, execs: &mut Vec<Vec<Value>>) {
    let thorough = tier == "thorough";
    let rates = [44100.0f64, 48000.0, 96000.0];
    let (n_exec, frames) = if thorough { (420, 160) } else { (60, 48) };
    // realistic rates, arbitrary frequencies
    for k in 0..n_exec {
        let rate = rates[k % 3];
        let mode = if k % 2 == 0 { "hz" } else { "const" };
        // every other hz-mode execution: the frequency signal reports exhaustion somewhere inside the run
        let exh: i64 = if mode == "hz" && rng.chance(1, 2) { rng.below(frames as u64) as i64 } else { -1 };
        let mut ex = vec![json!({"ev":"reset","comp":"osc","cfg":{"mode":mode,"ratei":rate as i64,"exh":exh}})];
        let style = rng.below(4);
        let base = any_hz(rng, rate);
        let mut walk = rng.below(20000) as f64;
        for j in 0..frames {
            let hz = if mode == "const" {
                base
            } else {
                match style {
                    0 => any_hz(rng, rate),
                    1 => {
                        walk = (walk + rng.range(-500, 500) as f64).abs();
                        walk
                    }
                    2 => if j % 2 == 0 { 0.0 } else { base },
                    _ => base,
                }
            };
            ex.push(hz_op(hz));
        }
        execs.push(ex);
    }
    // non-dyadic integer rates whose phases hit k/24, k/12, k/6 (sine special points), short runs
    for &r in &[3i64, 6, 12, 24, 48, 5, 7] {
        for mode in ["const", "hz"] {
            let reps = if thorough { 6 } else { 2 };
            for _ in 0..reps {
                let exh: i64 = if mode == "hz" && rng.chance(1, 2) { rng.below(40) as i64 } else { -1 };
                let mut ex = vec![json!({"ev":"reset","comp":"osc","cfg":{"mode":mode,"ratei":r,"exh":exh}})];
                let base = rng.below(100) as i64;
                for _ in 0..40 {
                    ex.push(hzi_op(if mode == "const" { base } else { rng.below(100) as i64 }));
                }
                execs.push(ex);
            }
        }
    }
    // integer rates r for which r * (1/r) != 1 in binary64, with frequencies that are whole multiples of
    // the rate (the phase must come back to exactly 0), and rates below 1 ("any positive sample rate")
    for &r in &[49i64, 98, 103, 107, 161] {
        for mode in ["const", "hz"] {
            let exh: i64 = if mode == "hz" { rng.range(-1, 6) } else { -1 };
            let mut ex = vec![json!({"ev":"reset","comp":"osc","cfg":{"mode":mode,"ratei":r,"exh":exh}})];
            let base = r * (1 + rng.below(3) as i64);
            for j in 0..12 {
                ex.push(hzi_op(if mode == "const" { base } else { r * (j % 4) as i64 }));
            }
            execs.push(ex);
        }
    }
    for &rate in &[0.5f64, 0.25, 0.75, 0.1] {
        for mode in ["const", "hz"] {
            let exh: i64 = if mode == "hz" { rng.range(-1, 8) } else { -1 };
            let mut ex = vec![json!({"ev":"reset","comp":"osc","cfg":{"mode":mode,"rate":f64f(rate),"exh":exh}})];
            let base = rate * (1 + rng.below(7)) as f64 / 8.0;
            for j in 0..16 {
                ex.push(hz_op(if mode == "const" { base } else { rate * ((j * 3) % 11) as f64 / 8.0 }));
            }
            execs.push(ex);
        }
    }
    // tiny steps over long runs, reported as extremes
    let long = if thorough { 1_000_000u64 } else { 100_000 };
    for k in 0..(if thorough { 9 } else { 3 }) {
        let rate = rates[k % 3];
        let hz = match k % 3 {
            0 => rate * 2f64.powi(-30) * 1.000001,
            1 => 1e-3 + (rng.below(1000) as f64) * 1e-6,
            _ => rate * 0.123456789e-4,
        };
        for mode in ["const", "hz"] {
            execs.push(vec![
                json!({"ev":"reset","comp":"osc","cfg":{"mode":mode,"ratei":rate as i64,"exh": if mode == "hz" && k % 2 == 0 { 1000 } else { -1 }}}),
                json!({"ev":"agg","a":{"hz": f64f(hz), "hzi": -1, "n": long}}),
            ]);
        }
    }
    // a long run at an audio frequency and one far above the rate
    for &hz in &[440.0f64, 123456.789] {
        execs.push(vec![
            json!({"ev":"reset","comp":"osc","cfg":{"mode":"hz","ratei":44100,"exh":1}}),
            hz_op(hz),
            json!({"ev":"agg","a":{"hz": f64f(hz), "hzi": -1, "n": long / 4}}),
        ]);
    }
    // noise: the listed seeds and random ones; an original, a clone taken mid-stream, a restart.
    // Round 5: every u64 operation of the hash chain  x = (c << 13) ^ c;  ((x * ((x * x) * P1 + P2)) + P3) & 0x7fffffff
    // (c = seed + index) must be driven across 2^64, where checked and wrapping arithmetic differ (debug build:
    // panic).  `* x`, `* P1` cross for almost every counter, but `+ P2` (789_221) crosses only when the product
    // before it lies in the top 789_221 values of u64 (probability 4e-14) and `+ P3` (1_376_312_589) in the top
    // 1.4e9 (7e-11): these counters are FIXED here.  They were computed offline: `+ P2` by solving
    // sq = -t / P1 (mod 2^64), a square root mod 2^64 (Hensel) and the inverse of c -> (c << 13) ^ c; `+ P3`
    // and the all-ones output by exhaustive search from 0.  The label list (`cross`, for the counter seed + `at`)
    // is a claim that Trace_Osc VERIFIES with Osc.tla's exact chain (NoiseCross) - a wrong constant is a rejection.
    let labelled: [(u64, u64, &[&str]); 16] = [
        (0, 0, &[]),
        (1, 0, &[]),
        (1 << 32, 0, &["sq", "mx"]),
        (1 << 63, 0, &["shl", "sq", "mx"]),
        (u64::MAX - 1, 0, &["shl"]),
        (u64::MAX, 0, &["shl"]),
        ((1 << 32) - 1, 0, &["sq", "m1", "mx"]),
        (43_101_728_223, 0, &["a3", "sq", "m1", "mx"]),          // smallest counter whose `+ P3` crosses
        (47_374_347_511 - 3, 3, &["a3"]),                        // reached by the run itself (4th frame)
        (56_657_942_616 - 1, 1, &["a3"]),
        (6_578_093_194_148_406_037, 0, &["a2", "shl", "sq", "m1"]), // `+ P2` crosses (t = 789_221: the very edge)
        (8_688_407_970_579_004_009, 0, &["a2", "mx"]),
        (11_865_318_259_704_290_539 - 2, 2, &["a2"]),
        (5_582_927_809_630_876_629 - 1, 1, &["a2", "mx"]),
        (230_204_178, 0, &["lo31ones"]),                         // all 31 output bits set: the smallest output
        (2_377_687_826 - 2, 2, &["lo31ones"]),
    ];
    let mut seeds: Vec<(u64, u64, Vec<&str>)> = labelled.iter().map(|(s, at, l)| (*s, *at, l.to_vec())).collect();
    for _ in 0..(if thorough { 40 } else { 8 }) {
        seeds.push((rng.next(), 0, vec![]));
    }
    let per = if thorough { 64 } else { 24 };
    for (s, at, cross) in seeds {
        let nx = |i: u64| json!({"ev":"next","a":{"inst": i}});
        let mut ex = vec![json!({"ev":"reset","comp":"noise","cfg":{"seed": big_u(s as u128), "cross": cross, "at": at}})];
        let split = (1 + rng.below(per / 2)).max(at + 1);
        for _ in 0..split {
            ex.push(nx(0));
        }
        ex.push(json!({"ev":"clone","a":{"from":0,"inst":2}}));
        ex.push(json!({"ev":"restart","a":{"inst":1}}));
        for _ in 0..per {
            ex.push(nx(rng.below(3)));
        }
        for i in 0..3 {
            ex.push(nx(i));
        }
        execs.push(ex);
    }
    for &s in &[0u64, 12345, 1 << 40] {
        execs.push(vec![
            json!({"ev":"reset","comp":"noise","cfg":{"seed": big_u(s as u128)}}),
            json!({"ev":"agg","a":{"inst":0,"n": long}}),
        ]);
    }
    // round 4: look-aheads through clones (`peek`), at random places of every other per-frame execution
    // (osc: clones of all oscillators read through Signal::take; noise: a clone of one instance)
    for ex in execs.iter_mut() {
        let comp = ex[0]["comp"].as_str().unwrap().to_string();
        if ex.len() < 4 || ex.iter().any(|e| e["ev"] == "agg") || !rng.chance(1, 2) {
            continue;
        }
        for _ in 0..(1 + rng.below(2)) {
            let at = 1 + rng.below(ex.len() as u64 - 1) as usize;
            let m = 1 + rng.below(8);
            let op = if comp == "osc" {
                json!({"ev":"peek","a":{"m":m}})
            } else {
                // only instances that exist at that point: 0 always; 1, 2 after the clone / restart lines
                let made = ex[..at].iter().filter(|e| e["ev"] == "clone" || e["ev"] == "restart").count() == 2;
                json!({"ev":"peek","a":{"inst": if made { rng.below(3) } else { 0 }, "m": m}})
            };
            ex.insert(at, op);
        }
    }
}
