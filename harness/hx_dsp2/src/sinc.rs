//! C18 driver: `dasp_interpolate::sinc::Sinc` over `ring_buffer::Fixed<Vec<F>>`, directly
//! (`sinc`: push / interp at x = j/16 / clear, with a fresh twin created at every clear),
//! through the real `Converter` at ratio 1 (`sinc_conv`), and four interleaved instances fed
//! a, b, a+b and 2^k a (`sinc_lin`: `step` = feed + interpolate, `probe` = interpolate only), and four real
//! `Converter`s at one ratio num/den over sources a, b, a+b, 2^k a (`sinc_clin`).  Frame types
//! `[f64|f32|i8|i16|i32|u8|u16|u32; 1|2]`; the 32-bit frames carry values with more than 24 significant bits
//! (the format's Float companion is f32; the interpolator must not round through it).  Drivers and loggers only.
use crate::enc::*;
use dasp_frame::Frame;
use dasp_interpolate::{sinc::Sinc, Interpolator};
use dasp_ring_buffer as ring_buffer;
use dasp_sample::Duplex;
use dasp_signal::{interpolate::Converter, Signal};
use hx_common::*;
use serde_json::{json, Value};

type Ring<F> = ring_buffer::Fixed<Vec<F>>;

fn fresh<F: Frame>(depth: usize) -> Sinc<Vec<F>>
where
    F::Sample: Duplex<f64>,
{
    Sinc::new(Ring::from(vec![F::EQUILIBRIUM; 2 * depth]))
}

fn cfg_echo(cfg: &Value, fmt: &str, ch: usize) -> Value {
    let mut c = cfg.clone();
    c["fmt"] = json!(fmt);
    c["ch"] = json!(ch);
    c
}

fn direct<F: Frame>(out: &mut Out, ex: &[Value])
where
    F::Sample: Enc + Duplex<f64>,
{
    let cfg = &ex[0]["cfg"];
    let depth = cfg["depth"].as_u64().unwrap() as usize;
    let echo = cfg_echo(cfg, <F::Sample as Enc>::FMT, F::CHANNELS);
    let built = catch(|| (fresh::<F>(depth), fresh::<F>(depth)));
    let (mut s, mut twin) = match built {
        None => {
            out.line(&json!({"ev":"reset","comp":"sinc","cfg":echo,"r":r_panic(),"o":{"ok":false}}));
            return;
        }
        Some(x) => x,
    };
    out.line(&json!({"ev":"reset","comp":"sinc","cfg":echo,"r":r_unit(),"o":{"ok":true}}));
    for op in &ex[1..] {
        let ev = op["ev"].as_str().unwrap();
        let a = &op["a"];
        match ev {
            "push" => {
                let v: F = dec_frame(&a["v"]);
                let (r, h, _) = measured(|| catch(|| s.next_source_frame(v)));
                let _ = catch(|| twin.next_source_frame(v));
                out.ev("push", json!({"v": enc_frame(v)}), if r.is_some() { r_unit() } else { r_panic() }, json!({"ok": true}), h);
            }
            "interp" => {
                let j = a["x"].as_i64().unwrap();
                let x = j as f64 / 16.0;
                let (r, h, _) = measured(|| catch(|| s.interpolate(x)));
                let t = catch(|| twin.interpolate(x));
                let r = match (r, t) {
                    (Some(o), Some(t)) => r_val(json!({"out": enc_frame(o), "fresh": enc_frame(t)})),
                    _ => r_panic(),
                };
                out.ev("interp", json!({"x": j}), r, json!({"ok": true}), h);
            }
            "interpf" => {
                // a position given exactly: {"kind":"onem","k":k} = 1 - 2^-k, {"kind":"pow","k":k} = 2^-k (down to the
                // smallest subnormal, k = 1074), or {"xf": binary64 fields}; the position used is echoed as `xf`
                let x = pos_of(a);
                let (r, h, _) = measured(|| catch(|| s.interpolate(x)));
                let t = catch(|| twin.interpolate(x));
                let r = match (r, t) {
                    (Some(o), Some(t)) => r_val(json!({"out": enc_frame(o), "fresh": enc_frame(t)})),
                    _ => r_panic(),
                };
                let kind = a.get("kind").and_then(|v| v.as_str()).unwrap_or("bits");
                let k = a.get("k").and_then(|v| v.as_i64()).unwrap_or(0);
                out.ev("interpf", json!({"kind": kind, "k": k, "xf": f64f(x)}), r, json!({"ok": true}), h);
            }
            "clear" => {
                // Interpolator::reset on the instance; the twin is replaced by a brand-new interpolator
                let (r, h, _) = measured(|| catch(|| s.reset()));
                twin = fresh::<F>(depth);
                out.ev("clear", json!({"x":0}), if r.is_some() { r_unit() } else { r_panic() }, json!({"ok": true}), h);
            }
            _ => panic!("unknown sinc op {}", ev),
        }
    }
}

/// the interpolation position of an `interpf` / `probef` stimulus (see `direct`)
fn pos_of(a: &Value) -> f64 {
    if let Some(xf) = a.get("xf") {
        if !xf.is_null() {
            return unf64(xf);
        }
    }
    let k = a["k"].as_u64().unwrap();
    let pow = |k: u64| -> f64 {
        assert!(k <= 1074);
        if k <= 1022 { f64::from_bits((1023 - k) << 52) } else { f64::from_bits(1u64 << (1074 - k)) }
    };
    match a["kind"].as_str().unwrap() {
        "pow" => pow(k),
        "onem" => {
            assert!(k >= 1 && k <= 53);
            1.0 - pow(k)
        }
        other => panic!("unknown position kind {}", other),
    }
}

/// source for the converter: the given frames, then equilibrium; counts pulls
pub struct Src<F> {
    data: Vec<F>,
    pos: usize,
    /// shared with the driver: still readable after the converter has been consumed (`tail`)
    pub pulls: std::rc::Rc<std::cell::Cell<usize>>,
}
impl<F: Frame> Signal for Src<F> {
    type Frame = F;
    fn next(&mut self) -> F {
        self.pulls.set(self.pulls.get() + 1);
        let f = if self.pos < self.data.len() { self.data[self.pos] } else { F::EQUILIBRIUM };
        self.pos += 1;
        f
    }
}

fn conv<F: Frame>(out: &mut Out, ex: &[Value])
where
    F::Sample: Enc + Duplex<f64>,
{
    let cfg = &ex[0]["cfg"];
    let depth = cfg["depth"].as_u64().unwrap() as usize;
    let ctor = cfg["ctor"].as_str().unwrap_or("scale").to_string();
    let data: Vec<F> = cfg["src"].as_array().unwrap().iter().map(|v| dec_frame(v)).collect();
    let mut echo = cfg_echo(cfg, <F::Sample as Enc>::FMT, F::CHANNELS);
    echo["src"] = enc_frames(&data);
    echo["ctor"] = json!(ctor);
    let pulls = std::rc::Rc::new(std::cell::Cell::new(0usize));
    let built = catch(|| {
        let src = Src { data, pos: 0, pulls: pulls.clone() };
        let s = fresh::<F>(depth);
        match ctor.as_str() {
            "scale" => Converter::scale_playback_hz(src, s, 1.0),
            "sample" => Converter::scale_sample_hz(src, s, 1.0),
            "hz" => Converter::from_hz_to_hz(src, s, 44100.0, 44100.0),
            _ => panic!("ctor"),
        }
    });
    let mut c = match built {
        None => {
            out.line(&json!({"ev":"reset","comp":"sinc_conv","cfg":echo,"r":r_panic(),"o":{"ok":false}}));
            return;
        }
        Some(c) => Some(c),
    };
    out.line(&json!({"ev":"reset","comp":"sinc_conv","cfg":echo,"r":r_unit(),"o":{"ok":true}}));
    for op in &ex[1..] {
        if op["ev"] == "tail" {
            // the converter consumed by the provided `Signal::take` on the concrete type: its next m frames
            let m = op["a"]["m"].as_u64().unwrap() as usize;
            let conv = c.take().expect("converter already consumed");
            let mut got: Vec<F> = Vec::with_capacity(m);
            // (the adaptor is built and dropped outside the measured window: dropping the converter frees its ring)
            let mut it = catch(|| conv.take(m));
            let (r, h, _) = measured(|| {
                catch(|| match it.as_mut() {
                    Some(it) => {
                        got.extend(it);
                        true
                    }
                    None => false,
                })
            });
            let r = match r {
                Some(true) => r_items(enc_frames(&got)),
                _ => r_panic(),
            };
            out.ev("tail", json!({"m": m}), r, json!({"ok": true, "pulls": pulls.get()}), h);
            continue;
        }
        assert_eq!(op["ev"], "next");
        let c = c.as_mut().expect("converter already consumed");
        let (r, h, _) = measured(|| catch(|| c.next()));
        let pulls = c.source().pulls.get();
        let r = match r {
            Some(f) => r_val(enc_frame(f)),
            None => r_panic(),
        };
        out.ev("next", json!({"x":0}), r, json!({"ok": true, "pulls": pulls}), h);
    }
}

fn lin<F: Frame>(out: &mut Out, ex: &[Value])
where
    F::Sample: Enc + Duplex<f64>,
{
    let cfg = &ex[0]["cfg"];
    let depth = cfg["depth"].as_u64().unwrap() as usize;
    let k = cfg["k"].as_i64().unwrap() as i32;
    let echo = cfg_echo(cfg, <F::Sample as Enc>::FMT, F::CHANNELS);
    let built = catch(|| [fresh::<F>(depth), fresh::<F>(depth), fresh::<F>(depth), fresh::<F>(depth)]);
    let mut s = match built {
        None => {
            out.line(&json!({"ev":"reset","comp":"sinc_lin","cfg":echo,"r":r_panic(),"o":{"ok":false}}));
            return;
        }
        Some(s) => s,
    };
    out.line(&json!({"ev":"reset","comp":"sinc_lin","cfg":echo,"r":r_unit(),"o":{"ok":true}}));
    for op in &ex[1..] {
        if op["ev"] == "probe" || op["ev"] == "probef" {
            // interpolate all four instances at x = j/16 (probef: at an exactly given position, see `pos_of`)
            // without feeding them (interpolate takes &self)
            let exact = op["ev"] == "probef";
            let j = if exact { 0 } else { op["a"]["x"].as_i64().unwrap() };
            let x = if exact { pos_of(&op["a"]) } else { j as f64 / 16.0 };
            let (r, h, _) = measured(|| {
                catch(|| {
                    let mut o = [F::EQUILIBRIUM; 4];
                    for i in 0..4 {
                        o[i] = s[i].interpolate(x);
                    }
                    o
                })
            });
            let r = match r {
                Some(o) => r_val(json!({"oa": enc_frame(o[0]), "ob": enc_frame(o[1]), "oab": enc_frame(o[2]), "oka": enc_frame(o[3])})),
                None => r_panic(),
            };
            if exact {
                out.ev("probef", json!({"xf": f64f(x)}), r, json!({"ok": true}), h);
            } else {
                out.ev("probe", json!({"x": j}), r, json!({"ok": true}), h);
            }
            continue;
        }
        assert_eq!(op["ev"], "step");
        let a = &op["a"];
        let va: F = dec_frame_lin(&a["va"]);
        let vb: F = dec_frame_lin(&a["vb"]);
        // inputs of the third and fourth instance (inputs, not expectations; the spec re-checks them)
        let vab: F = F::from_fn(|c| va.channel(c).unwrap().plus(*vb.channel(c).unwrap()));
        let vka: F = F::from_fn(|c| va.channel(c).unwrap().scale2(k));
        let j = a["x"].as_i64().unwrap();
        let x = j as f64 / 16.0;
        let ins = [va, vb, vab, vka];
        let (r, h, _) = measured(|| {
            catch(|| {
                let mut o = [F::EQUILIBRIUM; 4];
                for i in 0..4 {
                    s[i].next_source_frame(ins[i]);
                    o[i] = s[i].interpolate(x);
                }
                o
            })
        });
        let r = match r {
            Some(o) => r_val(json!({"oa": enc_frame(o[0]), "ob": enc_frame(o[1]), "oab": enc_frame(o[2]), "oka": enc_frame(o[3])})),
            None => r_panic(),
        };
        out.ev(
            "step",
            json!({"va": enc_frame(va), "vb": enc_frame(vb), "vab": enc_frame(vab), "vka": enc_frame(vka), "x": j}),
            r,
            json!({"ok": true}),
            h,
        );
    }
}

/// four real `Converter`s at one and the same ratio num/den over the sources a, b, a+b, 2^k a (`sinc_clin`):
/// each `next` reads one frame from every converter and logs the four frames and the four pull counts
fn clin<F: Frame>(out: &mut Out, ex: &[Value])
where
    F::Sample: Enc + Duplex<f64>,
{
    let cfg = &ex[0]["cfg"];
    let depth = cfg["depth"].as_u64().unwrap() as usize;
    let k = cfg["k"].as_i64().unwrap() as i32;
    let num = cfg["num"].as_u64().unwrap();
    let den = cfg["den"].as_u64().unwrap();
    let ctor = cfg["ctor"].as_str().unwrap_or("scale").to_string();
    let a: Vec<F> = cfg["a"].as_array().unwrap().iter().map(|v| dec_frame_lin(v)).collect();
    let b: Vec<F> = cfg["b"].as_array().unwrap().iter().map(|v| dec_frame_lin(v)).collect();
    assert_eq!(a.len(), b.len());
    // inputs of the third and fourth converter (inputs, not expectations; the spec re-checks them)
    let ab: Vec<F> = a.iter().zip(&b).map(|(x, y)| F::from_fn(|c| x.channel(c).unwrap().plus(*y.channel(c).unwrap()))).collect();
    let ka: Vec<F> = a.iter().map(|x| F::from_fn(|c| x.channel(c).unwrap().scale2(k))).collect();
    let mut echo = cfg_echo(cfg, <F::Sample as Enc>::FMT, F::CHANNELS);
    echo["a"] = enc_frames(&a);
    echo["b"] = enc_frames(&b);
    echo["ab"] = enc_frames(&ab);
    echo["ka"] = enc_frames(&ka);
    echo["ctor"] = json!(ctor);
    let pulls: Vec<std::rc::Rc<std::cell::Cell<usize>>> = (0..4).map(|_| std::rc::Rc::new(std::cell::Cell::new(0usize))).collect();
    let built = catch(|| {
        let mut cs = Vec::with_capacity(4);
        for (i, data) in [a, b, ab, ka].into_iter().enumerate() {
            let src = Src { data, pos: 0, pulls: pulls[i].clone() };
            let s = fresh::<F>(depth);
            cs.push(match ctor.as_str() {
                "scale" => Converter::scale_playback_hz(src, s, num as f64 / den as f64),
                "sample" => Converter::scale_sample_hz(src, s, den as f64 / num as f64),
                "hz" => Converter::from_hz_to_hz(src, s, num as f64 * 1000.0, den as f64 * 1000.0),
                _ => panic!("ctor"),
            });
        }
        cs
    });
    let mut cs = match built {
        None => {
            out.line(&json!({"ev":"reset","comp":"sinc_clin","cfg":echo,"r":r_panic(),"o":{"ok":false}}));
            return;
        }
        Some(c) => c,
    };
    out.line(&json!({"ev":"reset","comp":"sinc_clin","cfg":echo,"r":r_unit(),"o":{"ok":true}}));
    for op in &ex[1..] {
        assert_eq!(op["ev"], "next");
        let (r, h, _) = measured(|| {
            catch(|| {
                let mut o = [F::EQUILIBRIUM; 4];
                for i in 0..4 {
                    o[i] = cs[i].next();
                }
                o
            })
        });
        let r = match r {
            Some(o) => r_val(json!({"oa": enc_frame(o[0]), "ob": enc_frame(o[1]), "oab": enc_frame(o[2]), "oka": enc_frame(o[3])})),
            None => r_panic(),
        };
        let p: Vec<usize> = pulls.iter().map(|c| c.get()).collect();
        out.ev("next", json!({"x": 0}), r, json!({"ok": true, "pulls": p}), h);
    }
}

pub fn exec(out: &mut Out, ex: &[Value]) {
    let comp = ex[0]["comp"].as_str().unwrap();
    let cfg = &ex[0]["cfg"];
    let fmt = cfg["fmt"].as_str().unwrap();
    let ch = cfg["ch"].as_u64().unwrap_or(1);
    macro_rules! go {
        ($f:ident) => {
            match (fmt, ch) {
                ("f64", 1) => $f::<[f64; 1]>(out, ex),
                ("f64", 2) => $f::<[f64; 2]>(out, ex),
                ("f32", 1) => $f::<[f32; 1]>(out, ex),
                ("f32", 2) => $f::<[f32; 2]>(out, ex),
                ("i16", 1) => $f::<[i16; 1]>(out, ex),
                ("i16", 2) => $f::<[i16; 2]>(out, ex),
                ("i32", 1) => $f::<[i32; 1]>(out, ex),
                ("i32", 2) => $f::<[i32; 2]>(out, ex),
                ("i8", 1) => $f::<[i8; 1]>(out, ex),
                ("i8", 2) => $f::<[i8; 2]>(out, ex),
                ("u8", 1) => $f::<[u8; 1]>(out, ex),
                ("u8", 2) => $f::<[u8; 2]>(out, ex),
                ("u16", 1) => $f::<[u16; 1]>(out, ex),
                ("u16", 2) => $f::<[u16; 2]>(out, ex),
                ("u32", 1) => $f::<[u32; 1]>(out, ex),
                ("u32", 2) => $f::<[u32; 2]>(out, ex),
                _ => panic!("unsupported frame type {} x {}", fmt, ch),
            }
        };
    }
    match comp {
        "sinc" => go!(direct),
        "sinc_conv" => go!(conv),
        "sinc_lin" => go!(lin),
        "sinc_clin" => go!(clin),
        _ => panic!("unknown sinc component {}", comp),
    }
}

// ---------------------------------------------------------------------------------------- gen

fn is_int(fmt: &str) -> bool {
    !(fmt == "f64" || fmt == "f32")
}
fn half_of(fmt: &str) -> i128 {
    match fmt {
        "u8" => 128,
        "u16" => 32768,
        "u32" => 1 << 31,
        _ => 0,
    }
}
fn bits_of(fmt: &str) -> u32 {
    match fmt {
        "i8" | "u8" => 8,
        "i16" | "u16" => 16,
        _ => 32,
    }
}

/// a random sample spec of magnitude <= `peak_i` (in i16 units); floats get full-precision mantissas,
/// the 32-bit formats all 16 low bits (values whose significand does not fit an f32); 8- and 16-bit formats a
/// small-integer spec (= the amplitude in i16 units, see enc.rs)
fn rnd_sample(rng: &mut Rng, fmt: &str, peak_i: i64, fine: bool) -> Value {
    let n = rng.range(-peak_i, peak_i);
    if fmt == "i32" || fmt == "u32" {
        let v = n * 65536 + rng.below(65536) as i64;
        return big(v.clamp(i32::MIN as i64, i32::MAX as i64) as i128 + half_of(fmt));
    }
    if !fine || is_int(fmt) {
        return json!(n);
    }
    let u = (rng.next() >> 11) as f64 / (1u64 << 53) as f64;
    let x = (n as f64 + u - 0.5) / 32768.0;
    if fmt == "f32" {
        f32f(x as f32)
    } else {
        f64f(x)
    }
}
fn rnd_frame(rng: &mut Rng, fmt: &str, ch: usize, peak_i: i64, fine: bool) -> Value {
    Value::Array((0..ch).map(|_| rnd_sample(rng, fmt, peak_i, fine)).collect())
}
/// the format's extreme values (integers: MIN / MAX; floats: -1.0 and the largest value below 1.0)
fn extreme(fmt: &str, hi: bool) -> Value {
    match fmt {
        "f64" => f64f(if hi { 1.0 - f64::EPSILON / 2.0 } else { -1.0 }),
        "f32" => f32f(if hi { 1.0 - f32::EPSILON / 2.0 } else { -1.0 }),
        _ => {
            let h = 1i128 << (bits_of(fmt) - 1);
            big(if hi { h - 1 } else { -h } + half_of(fmt))
        }
    }
}
fn frame_of(ch: usize, v: Value) -> Value {
    Value::Array((0..ch).map(|_| v.clone()).collect())
}

/// an amplitude v for the linearity drivers: 8/16-bit formats and floats as a small-integer spec (floats: v / 2^15),
/// the 32-bit formats explicitly
fn amp_val(fmt: &str, v: i64) -> Value {
    match fmt {
        "i32" | "u32" => big(v as i128 + half_of(fmt)),
        _ => json!(v),
    }
}

/// what one input of a linearity run does at one step
#[derive(Clone, Copy, PartialEq)]
enum Sym {
    /// a fresh random non-zero frame
    Dense,
    /// exact silence
    Zero,
    /// the run's constant frame
    Konst,
    /// + / - the top of the amplitude range, alternating
    Alt,
    /// minus the other input's frame (the sum falls silent)
    NegOther,
    /// the other input's frame (two equal inputs)
    SameOther,
}

struct LinGen<'a> {
    fmt: &'a str,
    ch: usize,
    lim: i64,
    q: i64,
}
impl<'a> LinGen<'a> {
    fn dense(&self, rng: &mut Rng) -> Vec<i64> {
        (0..self.ch)
            .map(|_| {
                let v = rng.range(-self.lim / self.q, self.lim / self.q) * self.q;
                if v == 0 {
                    self.q
                } else {
                    v
                }
            })
            .collect()
    }
    fn frame(&self, v: &[i64]) -> Value {
        Value::Array(v.iter().map(|x| amp_val(self.fmt, *x)).collect())
    }
    /// one execution: the two symbol tracks (same length) -> reset + steps (+ probes)
    fn exec(&self, rng: &mut Rng, depth: usize, k: i64, ta: &[Sym], tb: &[Sym], probes: u64) -> Vec<Value> {
        assert_eq!(ta.len(), tb.len());
        let mut ex = vec![json!({"ev":"reset","comp":"sinc_lin","cfg":{"depth":depth,"fmt":self.fmt,"ch":self.ch,"k":k}})];
        let top = (self.lim / self.q) * self.q;
        let konst = [self.dense(rng), self.dense(rng)];
        for i in 0..ta.len() {
            let own = |rng: &mut Rng, s: Sym, t: usize| -> Option<Vec<i64>> {
                match s {
                    Sym::Dense => Some(self.dense(rng)),
                    Sym::Zero => Some(vec![0; self.ch]),
                    Sym::Konst => Some(konst[t].clone()),
                    Sym::Alt => Some(vec![if i % 2 == 0 { top } else { -top }; self.ch]),
                    Sym::NegOther | Sym::SameOther => None,
                }
            };
            let a0 = own(rng, ta[i], 0);
            let b0 = own(rng, tb[i], 1);
            let rel = |s: Sym, o: &Vec<i64>| -> Vec<i64> { o.iter().map(|x| if s == Sym::NegOther { -x } else { *x }).collect() };
            let (va, vb) = match (a0, b0) {
                (Some(a), Some(b)) => (a, b),
                (Some(a), None) => {
                    let b = rel(tb[i], &a);
                    (a, b)
                }
                (None, Some(b)) => (rel(ta[i], &b), b),
                (None, None) => panic!("both tracks relative"),
            };
            // mostly the middle of the interval (where the side lobes are largest), otherwise any fractional position
            let x = if rng.chance(1, 3) { 8 } else { 1 + rng.below(15) };
            ex.push(json!({"ev":"step","a":{"va":self.frame(&va),"vb":self.frame(&vb),"x":x}}));
            for _ in 0..probes {
                if rng.chance(1, 2) {
                    ex.push(json!({"ev":"probe","a":{"x":rng.below(16)}}));
                    if rng.chance(1, 3) {
                        // round 5: an exactly given position next to the grid (1 - 2^-k / 2^-k)
                        ex.push(json!({"ev":"probef","a":{"kind": if rng.chance(1, 2) { "onem" } else { "pow" },"k":1 + rng.below(53)}}));
                    }
                }
            }
        }
        ex
    }
}

/// run lengths of exact zeros to try at this depth: every length 1 ..= 2 depth + 1 at small depths, the thresholds
/// around depth and 2 depth (+ random ones) at large depths
fn zero_runs(rng: &mut Rng, depth: usize, thorough: bool) -> Vec<usize> {
    let d = depth;
    if d <= 6 || (thorough && d <= 12) {
        return (1..=2 * d + 1).collect();
    }
    let mut z = vec![d, if thorough || d % 2 == 0 { d + 1 } else { 2 * d + 1 }];
    z.push(1 + rng.below(d as u64 - 1) as usize);
    if thorough {
        z.extend([d - 1, 2 * d, 2 * d + 1, d + 2 + rng.below(d as u64 - 2) as usize]);
    }
    z
}

/// symbol tracks: `special` carries the structure, the other input is dense throughout
fn tracks(rng: &mut Rng, depth: usize, kind: &str, runs: &[usize]) -> (Vec<Sym>, Vec<Sym>) {
    let mut sp = Vec::new();
    let mut other = Vec::new();
    let push = |sp: &mut Vec<Sym>, other: &mut Vec<Sym>, s: Sym, n: usize| {
        for _ in 0..n {
            sp.push(s);
            other.push(Sym::Dense);
        }
    };
    match kind {
        // zero runs (in a, in b, or b = -a): leading zeros first, then each run after 1..3 non-silent frames
        "zrun_a" | "zrun_b" | "cancel" => {
            let s = if kind == "cancel" { Sym::NegOther } else { Sym::Zero };
            if rng.chance(1, 2) {
                push(&mut sp, &mut other, s, 1 + rng.below(depth as u64 + 2) as usize);
            }
            for z in runs {
                push(&mut sp, &mut other, Sym::Dense, 1 + rng.below(3) as usize);
                push(&mut sp, &mut other, s, *z);
            }
            push(&mut sp, &mut other, Sym::Dense, 2);
        }
        // repeated equal frames, alternating extremes, two equal inputs, an input that is silent throughout
        _ => {
            let s = match kind {
                "const" => Sym::Konst,
                "alt" => Sym::Alt,
                "same" => Sym::SameOther,
                "allzero" => Sym::Zero,
                _ => panic!("kind"),
            };
            push(&mut sp, &mut other, Sym::Dense, 2);
            push(&mut sp, &mut other, s, 2 * depth + 1 + rng.below(3) as usize);
            push(&mut sp, &mut other, Sym::Dense, 2);
            push(&mut sp, &mut other, s, 1 + rng.below(depth as u64) as usize);
            push(&mut sp, &mut other, Sym::Dense, 1);
        }
    }
    (sp, other)
}

pub fn gen(rng: &mut Rng, tier: &str, execs: &mut Vec<Vec<Value>>) {
    let thorough = tier == "thorough";
    let combos: [(&str, usize); 8] =
        [("f64", 1), ("f32", 1), ("i16", 1), ("i32", 1), ("f64", 2), ("f32", 2), ("i16", 2), ("i32", 2)];
    // round 4b: the narrow and the unsigned formats
    let combos2: [(&str, usize); 8] =
        [("u16", 1), ("i8", 1), ("u8", 2), ("u32", 1), ("u16", 2), ("i8", 2), ("u8", 1), ("u32", 2)];
    // round 4b: the property quantifies over every depth -- beyond 32 a sample of large depths
    let mut depths: Vec<usize> = (1..=32).collect();
    depths.extend(if thorough { vec![33, 34, 35, 36, 37, 38, 39, 40, 41, 48, 50, 64, 72, 96, 100, 128] } else { vec![35, 36, 37, 41, 50, 64, 100] });
    for (di, &depth) in depths.iter().enumerate() {
        let large = depth > 32;
        // quick: three frame types per depth (rotating, every type at small and large depths); thorough: all sixteen
        let sel: Vec<(&str, usize)> = if thorough {
            combos.iter().chain(combos2.iter()).cloned().collect()
        } else {
            vec![combos[depth % 4], combos[4 + (depth / 2) % 4], combos2[depth % 8]]
        };
        for (si, &(fmt, ch)) in sel.iter().enumerate() {
            let int = is_int(fmt);
            // integer frames stay below 1/8 full scale where fractional positions are interpolated (tap sums)
            let peak = if int { 4000 } else { 30000 };
            let push = |v: Value| json!({"ev":"push","a":{"v":v}});
            let interp = |j: u64| json!({"ev":"interp","a":{"x":j}});
            // (1) direct: priming with interpolation at every step, constant passage, clear, again
            // (large depths, quick tier: one frame type per depth)
            if !large || (thorough && si % 4 == di % 4) || (!thorough && si == (di % 3)) {
                let mut ex = vec![json!({"ev":"reset","comp":"sinc","cfg":{"depth":depth,"fmt":fmt,"ch":ch}})];
                ex.push(interp(0));
                for _ in 0..(depth + 2 + rng.below(depth as u64 + 2) as usize) {
                    ex.push(push(rnd_frame(rng, fmt, ch, peak, true)));
                    ex.push(interp(0));
                    if rng.chance(1, 2) {
                        ex.push(interp(rng.below(16)));
                    }
                }
                // a constant passage long enough to prime the whole buffer, every fractional position
                let c = rnd_frame(rng, fmt, ch, peak, true);
                for _ in 0..(2 * depth) {
                    ex.push(push(c.clone()));
                }
                for j in 0..16 {
                    ex.push(interp(j));
                }
                // round 5: positions that are not j/16 - right next to the grid from either side (1 - 2^-k, 2^-k,
                // a few ulp below 1, a few subnormal steps above 0) and full-precision positions anywhere in [0, 1)
                for _ in 0..4 {
                    ex.push(json!({"ev":"interpf","a":{"kind":"onem","k":1 + rng.below(53)}}));
                    let top = if rng.chance(1, 4) { 1074 } else { 60 };
                    ex.push(json!({"ev":"interpf","a":{"kind":"pow","k":1 + rng.below(top)}}));
                    let u = (rng.next() >> 11) as f64 / (1u64 << 53) as f64;
                    ex.push(json!({"ev":"interpf","a":{"kind":"bits","xf":f64f(u)}}));
                }
                ex.push(json!({"ev":"interpf","a":{"kind":"bits","xf":f64f(1.0 - (1 + rng.below(16)) as f64 * f64::EPSILON / 2.0)}}));
                ex.push(json!({"ev":"interpf","a":{"kind":"bits","xf":f64f(f64::from_bits(1 + rng.below(16)))}}));
                ex.push(json!({"ev":"interpf","a":{"kind":"onem","k":53}}));
                ex.push(json!({"ev":"clear","a":{}}));
                ex.push(interp(0));
                ex.push(interp(rng.below(16)));
                for _ in 0..(depth + 3) {
                    ex.push(push(rnd_frame(rng, fmt, ch, peak, true)));
                    ex.push(interp(0));
                    ex.push(interp(rng.below(16)));
                }
                execs.push(ex);
            }
            // (2) through the Converter at ratio 1
            // (on the grid only the centre tap has a non-zero weight: integer sources run up to full scale, and
            // contain both extremes of the format, a run of exact zeros and a run of equal frames)
            let n_src = 2 * depth + 6;
            let cpeak = if int { 32767 } else { peak };
            let mut src: Vec<Value> = (0..n_src).map(|_| rnd_frame(rng, fmt, ch, cpeak, true)).collect();
            let zl = 1 + rng.below(depth as u64 + 1) as usize;
            let z0 = rng.below((n_src - zl) as u64) as usize;
            for s in src.iter_mut().skip(z0).take(zl) {
                *s = frame_of(ch, json!(0));
            }
            let c0 = rng.below(n_src as u64 - 2) as usize;
            src[c0 + 1] = src[c0].clone();
            src[c0 + 2] = src[c0].clone();
            let e0 = rng.below(n_src as u64 - 1) as usize;
            src[e0] = frame_of(ch, extreme(fmt, true));
            src[e0 + 1] = frame_of(ch, extreme(fmt, false));
            let ctor = *rng.pick(&["scale", "sample", "hz"]);
            let mut ex = vec![json!({"ev":"reset","comp":"sinc_conv","cfg":{"depth":depth,"fmt":fmt,"ch":ch,"ctor":ctor,"src":src}})];
            let total = n_src + depth + 3;
            // every other execution: the last frames are read by consuming the converter through Signal::take
            let tail = if rng.chance(1, 2) { 1 + rng.below(total as u64) as usize } else { 0 };
            for _ in 0..(total - tail) {
                ex.push(json!({"ev":"next","a":{}}));
            }
            if tail > 0 {
                ex.push(json!({"ev":"tail","a":{"m":tail}}));
            }
            execs.push(ex);
            // (3) linearity: a, b, a+b, 2^k a.  Values are chosen so that a+b and 2^k a are exact:
            // integer samples multiples of 2^|k| when k < 0; floats = 15-bit dyadics
            // (8-bit formats: the tap truncation, 2 depth LSB, is as large as any amplitude that cannot overflow)
            if bits_of(fmt) == 8 && int {
                continue;
            }
            let k = if int { rng.range(-2, 2) } else { rng.range(-8, 8) };
            // (32-bit formats: explicit values up to 2^26, again more significant bits than an f32 holds)
            let lim: i64 = if bits_of(fmt) == 16 && int { 1000 } else if int { 1 << 26 } else { 12000 };
            let q: i64 = if int && k < 0 { 1 << (-k) } else { 1 };
            let lg = LinGen { fmt, ch, lim, q };
            if !large || thorough {
                let n = 2 * depth + 4;
                let t = vec![Sym::Dense; n];
                let mut ex = lg.exec(rng, depth, k, &t, &t, 0);
                // (as before round 4b: any position including the grid)
                for e in ex.iter_mut().skip(1) {
                    e["a"]["x"] = json!(rng.below(16));
                }
                execs.push(ex);
            }
            // round 4b: inputs with structure a value-dependent shortcut could key on.  One input is special, the
            // other dense, in both roles; quick tier: zero runs in a for one frame type per depth + one more kind
            let kinds = ["zrun_a", "zrun_b", "cancel", "const", "alt", "same", "allzero"];
            let chosen: Vec<&str> = if thorough {
                if si % 4 == di % 4 { kinds.to_vec() } else { vec![] }
            } else if si == (di % 2) {
                vec!["zrun_a", kinds[1 + di % 6]]
            } else {
                vec![]
            };
            for kind in chosen {
                let runs = zero_runs(rng, depth, thorough && kind == "zrun_a");
                let (sp, other) = tracks(rng, depth, kind, &runs);
                let ex = if kind == "zrun_b" { lg.exec(rng, depth, k, &other, &sp, 1) } else { lg.exec(rng, depth, k, &sp, &other, 1) };
                execs.push(ex);
            }
            // round 4b: the same relations through four real Converters at a ratio other than 1
            if (thorough && si % 4 == (di + 1) % 4) || (!thorough && si == ((di + 1) % 2) && (depth % 2 == 0 || depth == 37) && depth <= 50) {
                let ratios: [(u64, u64); 8] = [(1, 2), (3, 10), (3, 2), (7, 16), (2, 1), (5, 4), (441, 480), (160, 147)];
                let (num, den) = if depth > 16 { ratios[2 + rng.below(6) as usize] } else { *rng.pick(&ratios) };
                let z = depth + rng.below(depth as u64 + 1) as usize;
                let burst = 1 + rng.below(3) as usize;
                let len = burst + z + 3 + rng.below(depth as u64 + 1) as usize;
                let a: Vec<Value> = (0..len).map(|i| if i >= burst && i < burst + z { lg.frame(&vec![0; ch]) } else { lg.frame(&lg.dense(rng)) }).collect();
                let b: Vec<Value> = (0..len).map(|_| lg.frame(&lg.dense(rng))).collect();
                let ctor = *rng.pick(&["scale", "sample", "hz"]);
                let nout = ((((len + 2 * depth + 2) as u64) * den) / num + 1).min(300);
                let mut ex = vec![json!({"ev":"reset","comp":"sinc_clin","cfg":{"depth":depth,"fmt":fmt,"ch":ch,"k":k,"num":num,"den":den,"ctor":ctor,"a":a,"b":b}})];
                for _ in 0..nout {
                    ex.push(json!({"ev":"next","a":{}}));
                }
                execs.push(ex);
            }
            // round 5: converters over CONSTANT sources at ratios whose accumulated phase comes within a few ulp of an
            // integer (from below: 1/10, 3/10, 7/10, 9/10, 1/7, 2/3, 1/6, 7/5, 49/100; from above: 11/10, 13/10, 1/9,
            // 1/100) and at a random ratio: the constant clause at whatever position the converter reaches by itself
            if depth >= 4 && depth <= 16 && si == depth % 2 {
                let ratios: [(u64, u64); 13] = [(1, 10), (3, 10), (7, 10), (9, 10), (1, 7), (2, 3), (1, 6), (7, 5), (49, 100),
                    (11, 10), (13, 10), (1, 9), (1, 100)];
                for round in 0..(if thorough { 3 } else { 1 }) {
                    let (num, den) = if round == 2 { (1 + rng.below(40), 1 + rng.below(40)) } else { *rng.pick(&ratios) };
                    let lead = rng.below(3) as usize;
                    let len = lead + 2 * depth + 12;
                    let (ca, cb) = (lg.frame(&lg.dense(rng)), lg.frame(&lg.dense(rng)));
                    let a: Vec<Value> = (0..len).map(|i| if i < lead { lg.frame(&lg.dense(rng)) } else { ca.clone() }).collect();
                    let b: Vec<Value> = (0..len).map(|_| cb.clone()).collect();
                    let ctor = *rng.pick(&["scale", "sample", "hz"]);
                    let nout = (((len as u64) * den) / num + 1).min(if thorough { 1200 } else { 420 });
                    let mut ex = vec![json!({"ev":"reset","comp":"sinc_clin","cfg":{"depth":depth,"fmt":fmt,"ch":ch,"k":k,"num":num,"den":den,"ctor":ctor,"a":a,"b":b}})];
                    for _ in 0..nout {
                        ex.push(json!({"ev":"next","a":{}}));
                    }
                    execs.push(ex);
                }
            }
        }
    }
}
