//! C18 driver: `dasp_interpolate::sinc::Sinc` over `ring_buffer::Fixed<Vec<F>>`, directly
//! (`sinc`: push / interp at x = j/16 / clear, with a fresh twin created at every clear),
//! through the real `Converter` at ratio 1 (`sinc_conv`), and four interleaved instances fed
//! a, b, a+b and 2^k a (`sinc_lin`).  Frame types `[f64|f32|i16|i32; 1|2]`; the i32 frames carry
//! values with more than 24 significant bits (the format's Float companion is f32; the interpolator
//! must not round through it).  Drivers and loggers only.
use crate::enc::*;
use dasp_frame::Frame;
use dasp_interpolate::{sinc::Sinc, Interpolator};
use dasp_ring_buffer as ring_buffer;
use dasp_sample::Duplex;
use dasp_signal::{interpolate::Converter, Signal};
use hx_common::*;
use serde_json::{json, Value};

type Ring<F> = ring_buffer::Fixed<Vec<F>>;

fn fresh<F: Frame>(depth: usize) -> Sinc<Vec<F>>
where
    F::Sample: Duplex<f64>,
{
    Sinc::new(Ring::from(vec![F::EQUILIBRIUM; 2 * depth]))
}

fn cfg_echo(cfg: &Value, fmt: &str, ch: usize) -> Value {
    let mut c = cfg.clone();
    c["fmt"] = json!(fmt);
    c["ch"] = json!(ch);
    c
}

fn direct<F: Frame>(out: &mut Out, ex: &[Value])
where
    F::Sample: Enc + Duplex<f64>,
{
    let cfg = &ex[0]["cfg"];
    let depth = cfg["depth"].as_u64().unwrap() as usize;
    let echo = cfg_echo(cfg, <F::Sample as Enc>::FMT, F::CHANNELS);
    let built = catch(|| (fresh::<F>(depth), fresh::<F>(depth)));
    let (mut s, mut twin) = match built {
        None => {
            out.line(&json!({"ev":"reset","comp":"sinc","cfg":echo,"r":r_panic(),"o":{"ok":false}}));
            return;
        }
        Some(x) => x,
    };
    out.line(&json!({"ev":"reset","comp":"sinc","cfg":echo,"r":r_unit(),"o":{"ok":true}}));
    for op in &ex[1..] {
        let ev = op["ev"].as_str().unwrap();
        let a = &op["a"];
        match ev {
            "push" => {
                let v: F = dec_frame(&a["v"]);
                let (r, h, _) = measured(|| catch(|| s.next_source_frame(v)));
                let _ = catch(|| twin.next_source_frame(v));
                out.ev("push", json!({"v": enc_frame(v)}), if r.is_some() { r_unit() } else { r_panic() }, json!({"ok": true}), h);
            }
            "interp" => {
                let j = a["x"].as_i64().unwrap();
                let x = j as f64 / 16.0;
                let (r, h, _) = measured(|| catch(|| s.interpolate(x)));
                let t = catch(|| twin.interpolate(x));
                let r = match (r, t) {
                    (Some(o), Some(t)) => r_val(json!({"out": enc_frame(o), "fresh": enc_frame(t)})),
                    _ => r_panic(),
                };
                out.ev("interp", json!({"x": j}), r, json!({"ok": true}), h);
            }
            "clear" => {
                // Interpolator::reset on the instance; the twin is replaced by a brand-new interpolator
                let (r, h, _) = measured(|| catch(|| s.reset()));
                twin = fresh::<F>(depth);
                out.ev("clear", json!({"x":0}), if r.is_some() { r_unit() } else { r_panic() }, json!({"ok": true}), h);
            }
            _ => panic!("unknown sinc op {}", ev),
        }
    }
}

/// source for the converter: the given frames, then equilibrium; counts pulls
pub struct Src<F> {
    data: Vec<F>,
    pos: usize,
    /// shared with the driver: still readable after the converter has been consumed (`tail`)
    pub pulls: std::rc::Rc<std::cell::Cell<usize>>,
}
impl<F: Frame> Signal for Src<F> {
    type Frame = F;
    fn next(&mut self) -> F {
        self.pulls.set(self.pulls.get() + 1);
        let f = if self.pos < self.data.len() { self.data[self.pos] } else { F::EQUILIBRIUM };
        self.pos += 1;
        f
    }
}

fn conv<F: Frame>(out: &mut Out, ex: &[Value])
where
    F::Sample: Enc + Duplex<f64>,
{
    let cfg = &ex[0]["cfg"];
    let depth = cfg["depth"].as_u64().unwrap() as usize;
    let ctor = cfg["ctor"].as_str().unwrap_or("scale").to_string();
    let data: Vec<F> = cfg["src"].as_array().unwrap().iter().map(|v| dec_frame(v)).collect();
    let mut echo = cfg_echo(cfg, <F::Sample as Enc>::FMT, F::CHANNELS);
    echo["src"] = enc_frames(&data);
    echo["ctor"] = json!(ctor);
    let pulls = std::rc::Rc::new(std::cell::Cell::new(0usize));
    let built = catch(|| {
        let src = Src { data, pos: 0, pulls: pulls.clone() };
        let s = fresh::<F>(depth);
        match ctor.as_str() {
            "scale" => Converter::scale_playback_hz(src, s, 1.0),
            "sample" => Converter::scale_sample_hz(src, s, 1.0),
            "hz" => Converter::from_hz_to_hz(src, s, 44100.0, 44100.0),
            _ => panic!("ctor"),
        }
    });
    let mut c = match built {
        None => {
            out.line(&json!({"ev":"reset","comp":"sinc_conv","cfg":echo,"r":r_panic(),"o":{"ok":false}}));
            return;
        }
        Some(c) => Some(c),
    };
    out.line(&json!({"ev":"reset","comp":"sinc_conv","cfg":echo,"r":r_unit(),"o":{"ok":true}}));
    for op in &ex[1..] {
        if op["ev"] == "tail" {
            // the converter consumed by the provided `Signal::take` on the concrete type: its next m frames
            let m = op["a"]["m"].as_u64().unwrap() as usize;
            let conv = c.take().expect("converter already consumed");
            let mut got: Vec<F> = Vec::with_capacity(m);
            // (the adaptor is built and dropped outside the measured window: dropping the converter frees its ring)
            let mut it = catch(|| conv.take(m));
            let (r, h, _) = measured(|| {
                catch(|| match it.as_mut() {
                    Some(it) => {
                        got.extend(it);
                        true
                    }
                    None => false,
                })
            });
            let r = match r {
                Some(true) => r_items(enc_frames(&got)),
                _ => r_panic(),
            };
            out.ev("tail", json!({"m": m}), r, json!({"ok": true, "pulls": pulls.get()}), h);
            continue;
        }
        assert_eq!(op["ev"], "next");
        let c = c.as_mut().expect("converter already consumed");
        let (r, h, _) = measured(|| catch(|| c.next()));
        let pulls = c.source().pulls.get();
        let r = match r {
            Some(f) => r_val(enc_frame(f)),
            None => r_panic(),
        };
        out.ev("next", json!({"x":0}), r, json!({"ok": true, "pulls": pulls}), h);
    }
}

fn lin<F: Frame>(out: &mut Out, ex: &[Value])
where
    F::Sample: Enc + Duplex<f64>,
{
    let cfg = &ex[0]["cfg"];
    let depth = cfg["depth"].as_u64().unwrap() as usize;
    let k = cfg["k"].as_i64().unwrap() as i32;
    let echo = cfg_echo(cfg, <F::Sample as Enc>::FMT, F::CHANNELS);
    let built = catch(|| [fresh::<F>(depth), fresh::<F>(depth), fresh::<F>(depth), fresh::<F>(depth)]);
    let mut s = match built {
        None => {
            out.line(&json!({"ev":"reset","comp":"sinc_lin","cfg":echo,"r":r_panic(),"o":{"ok":false}}));
            return;
        }
        Some(s) => s,
    };
    out.line(&json!({"ev":"reset","comp":"sinc_lin","cfg":echo,"r":r_unit(),"o":{"ok":true}}));
    for op in &ex[1..] {
        assert_eq!(op["ev"], "step");
        let a = &op["a"];
        let va: F = dec_frame(&a["va"]);
        let vb: F = dec_frame(&a["vb"]);
        // inputs of the third and fourth instance (inputs, not expectations; the spec re-checks them)
        let vab: F = F::from_fn(|c| va.channel(c).unwrap().plus(*vb.channel(c).unwrap()));
        let vka: F = F::from_fn(|c| va.channel(c).unwrap().scale2(k));
        let j = a["x"].as_i64().unwrap();
        let x = j as f64 / 16.0;
        let ins = [va, vb, vab, vka];
        let (r, h, _) = measured(|| {
            catch(|| {
                let mut o = [F::EQUILIBRIUM; 4];
                for i in 0..4 {
                    s[i].next_source_frame(ins[i]);
                    o[i] = s[i].interpolate(x);
                }
                o
            })
        });
        let r = match r {
            Some(o) => r_val(json!({"oa": enc_frame(o[0]), "ob": enc_frame(o[1]), "oab": enc_frame(o[2]), "oka": enc_frame(o[3])})),
            None => r_panic(),
        };
        out.ev(
            "step",
            json!({"va": enc_frame(va), "vb": enc_frame(vb), "vab": enc_frame(vab), "vka": enc_frame(vka), "x": j}),
            r,
            json!({"ok": true}),
            h,
        );
    }
}

pub fn exec(out: &mut Out, ex: &[Value]) {
    let comp = ex[0]["comp"].as_str().unwrap();
    let cfg = &ex[0]["cfg"];
    let fmt = cfg["fmt"].as_str().unwrap();
    let ch = cfg["ch"].as_u64().unwrap_or(1);
    macro_rules! go {
        ($f:ident) => {
            match (fmt, ch) {
                ("f64", 1) => $f::<[f64; 1]>(out, ex),
                ("f64", 2) => $f::<[f64; 2]>(out, ex),
                ("f32", 1) => $f::<[f32; 1]>(out, ex),
                ("f32", 2) => $f::<[f32; 2]>(out, ex),
                ("i16", 1) => $f::<[i16; 1]>(out, ex),
                ("i16", 2) => $f::<[i16; 2]>(out, ex),
                ("i32", 1) => $f::<[i32; 1]>(out, ex),
                ("i32", 2) => $f::<[i32; 2]>(out, ex),
                _ => panic!("unsupported frame type {} x {}", fmt, ch),
            }
        };
    }
    match comp {
        "sinc" => go!(direct),
        "sinc_conv" => go!(conv),
        "sinc_lin" => go!(lin),
        _ => panic!("unknown sinc component {}", comp),
    }
}

// ---------------------------------------------------------------------------------------- gen

/// a random sample spec of magnitude <= `peak_i` (in i16 units); floats get full-precision mantissas,
/// i32 all 16 low bits (values whose significand does not fit an f32)
fn rnd_sample(rng: &mut Rng, fmt: &str, peak_i: i64, fine: bool) -> Value {
    let n = rng.range(-peak_i, peak_i);
    if fmt == "i32" {
        let v = n * 65536 + rng.below(65536) as i64;
        return big(v.clamp(i32::MIN as i64, i32::MAX as i64) as i128);
    }
    if !fine || fmt == "i16" {
        return json!(n);
    }
    let u = (rng.next() >> 11) as f64 / (1u64 << 53) as f64;
    let x = (n as f64 + u - 0.5) / 32768.0;
    if fmt == "f32" {
        f32f(x as f32)
    } else {
        f64f(x)
    }
}
fn rnd_frame(rng: &mut Rng, fmt: &str, ch: usize, peak_i: i64, fine: bool) -> Value {
    Value::Array((0..ch).map(|_| rnd_sample(rng, fmt, peak_i, fine)).collect())
}

pub fn gen(rng: &mut Rng, tier: &str, execs: &mut Vec<Vec<Value>>) {
    let thorough = tier == "thorough";
    let combos: [(&str, usize); 8] =
        [("f64", 1), ("f32", 1), ("i16", 1), ("i32", 1), ("f64", 2), ("f32", 2), ("i16", 2), ("i32", 2)];
    for depth in 1..=32usize {
        // quick: two frame types per depth (rotating, every type at small and large depths); thorough: all eight
        let sel: Vec<(&str, usize)> = if thorough {
            combos.to_vec()
        } else {
            vec![combos[depth % 4], combos[4 + (depth / 2) % 4]]
        };
        for (fmt, ch) in sel {
            let int = fmt == "i16" || fmt == "i32";
            // integer frames stay below 1/8 full scale where fractional positions are interpolated (tap sums)
            let peak = if int { 4000 } else { 30000 };
            // (1) direct: priming with interpolation at every step, constant passage, clear, again
            let mut ex = vec![json!({"ev":"reset","comp":"sinc","cfg":{"depth":depth,"fmt":fmt,"ch":ch}})];
            let push = |v: Value| json!({"ev":"push","a":{"v":v}});
            let interp = |j: u64| json!({"ev":"interp","a":{"x":j}});
            ex.push(interp(0));
            for _ in 0..(depth + 2 + rng.below(depth as u64 + 2) as usize) {
                ex.push(push(rnd_frame(rng, fmt, ch, peak, true)));
                ex.push(interp(0));
                if rng.chance(1, 2) {
                    ex.push(interp(rng.below(16)));
                }
            }
            // a constant passage long enough to prime the whole buffer, every fractional position
            let c = rnd_frame(rng, fmt, ch, peak, true);
            for _ in 0..(2 * depth) {
                ex.push(push(c.clone()));
            }
            for j in 0..16 {
                ex.push(interp(j));
            }
            ex.push(json!({"ev":"clear","a":{}}));
            ex.push(interp(0));
            ex.push(interp(rng.below(16)));
            for _ in 0..(depth + 3) {
                ex.push(push(rnd_frame(rng, fmt, ch, peak, true)));
                ex.push(interp(0));
                ex.push(interp(rng.below(16)));
            }
            execs.push(ex);
            // (2) through the Converter at ratio 1
            // (on the grid only the centre tap has a non-zero weight: i32 sources run up to full scale)
            let n_src = 2 * depth + 6;
            let cpeak = if fmt == "i32" { 32767 } else { peak };
            let src: Vec<Value> = (0..n_src).map(|_| rnd_frame(rng, fmt, ch, cpeak, true)).collect();
            let ctor = *rng.pick(&["scale", "sample", "hz"]);
            let mut ex = vec![json!({"ev":"reset","comp":"sinc_conv","cfg":{"depth":depth,"fmt":fmt,"ch":ch,"ctor":ctor,"src":src}})];
            let total = n_src + depth + 3;
            // every other execution: the last frames are read by consuming the converter through Signal::take
            let tail = if rng.chance(1, 2) { 1 + rng.below(total as u64) as usize } else { 0 };
            for _ in 0..(total - tail) {
                ex.push(json!({"ev":"next","a":{}}));
            }
            if tail > 0 {
                ex.push(json!({"ev":"tail","a":{"m":tail}}));
            }
            execs.push(ex);
            // (3) linearity: a, b, a+b, 2^k a.  Values are chosen so that a+b and 2^k a are exact:
            // integer samples multiples of 2^|k| when k < 0; floats = 20-bit dyadics in a common binade
            let k = if int { rng.range(-2, 2) } else { rng.range(-8, 8) };
            let mut ex = vec![json!({"ev":"reset","comp":"sinc_lin","cfg":{"depth":depth,"fmt":fmt,"ch":ch,"k":k}})];
            // (i32: explicit values up to 2^26, again more significant bits than an f32 holds)
            let lim: i64 = if fmt == "i16" { 1000 } else if fmt == "i32" { 1 << 26 } else { 12000 };
            let q: i64 = if int && k < 0 { 1 << (-k) } else { 1 };
            let one = |rng: &mut Rng| {
                Value::Array(
                    (0..ch)
                        .map(|_| {
                            let v = rng.range(-lim / q, lim / q) * q;
                            if fmt == "i32" { big(v as i128) } else { json!(v) }
                        })
                        .collect(),
                )
            };
            for _ in 0..(2 * depth + 4) {
                let va = one(rng);
                let vb = one(rng);
                ex.push(json!({"ev":"step","a":{"va":va,"vb":vb,"x":rng.below(16)}}));
            }
            execs.push(ex);
        }
    }
}
