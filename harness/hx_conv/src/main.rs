//! Driver + logger for dasp_signal::interpolate::Converter and Signal::mul_hz (MulHz) over the
//! Floor and Linear interpolators.  Executes stimuli (from TLC's MC_Converter or from `gen`) on the
//! real types, over instrumented `from_iter` sources that count pulls, in four sample formats, mono
//! and stereo, through every construction route, and logs every call at its return.
//! Trace_Converter.tla judges the log.  No expected values here.
use dasp_frame::Frame;
use dasp_interpolate::{floor::Floor, linear::Linear, Interpolator};
use dasp_sample::{Duplex, Sample};
use dasp_signal::{self as signal, interpolate::Converter, MulHz, Signal};
use hx_common::*;
use serde_json::{json, Value};
use std::cell::Cell;
use std::rc::Rc;

#[global_allocator]
static A: CountingAlloc = CountingAlloc;

// ---------------------------------------------------------------------------- numbers, samples

/// A number argument: JSON int, `{"p":int,"q":int}` (= p/q in f64) or IEEE fields `{"s","e","m"}`.
fn num(v: &Value) -> f64 {
    if let Some(i) = v.as_i64() {
        i as f64
    } else if v.get("p").is_some() {
        v["p"].as_i64().unwrap() as f64 / v["q"].as_i64().unwrap() as f64
    } else {
        unf64(v)
    }
}

trait Smp: Sample + Duplex<f64> + Copy + 'static {
    fn dec(v: &Value) -> Self;
    fn enc(self) -> Value;
}
impl Smp for f64 {
    fn dec(v: &Value) -> f64 {
        num(v)
    }
    fn enc(self) -> Value {
        f64f(self)
    }
}
impl Smp for f32 {
    fn dec(v: &Value) -> f32 {
        if let Some(i) = v.as_i64() {
            i as f32
        } else {
            unf32(v)
        }
    }
    fn enc(self) -> Value {
        f32f(self)
    }
}
impl Smp for i16 {
    fn dec(v: &Value) -> i16 {
        v.as_i64().expect("i16 sample") as i16
    }
    fn enc(self) -> Value {
        json!(self)
    }
}
impl Smp for u8 {
    fn dec(v: &Value) -> u8 {
        v.as_i64().expect("u8 sample") as u8
    }
    fn enc(self) -> Value {
        json!(self)
    }
}
fn dec_frame<F: Frame>(v: &Value) -> F
where
    F::Sample: Smp,
{
    F::from_fn(|c| <F::Sample as Smp>::dec(&v[c]))
}
fn enc_frame<F: Frame>(f: F) -> Value
where
    F::Sample: Smp,
{
    Value::Array(f.channels().map(|s| s.enc()).collect())
}

// ---------------------------------------------------------------------------- instrumented sources

/// Counts `Signal::next` calls on the wrapped signal; forwards `is_exhausted`.
struct Counted<S> {
    s: S,
    n: Rc<Cell<u64>>,
}
impl<S: Signal> Signal for Counted<S> {
    type Frame = S::Frame;
    fn next(&mut self) -> S::Frame {
        self.n.set(self.n.get() + 1);
        self.s.next()
    }
    fn is_exhausted(&self) -> bool {
        self.s.is_exhausted()
    }
}
/// `len` frames: the pattern repeated.
struct PatIter<F> {
    pat: Vec<F>,
    i: usize,
    len: usize,
}
impl<F: Copy> Iterator for PatIter<F> {
    type Item = F;
    fn next(&mut self) -> Option<F> {
        if self.i < self.len && !self.pat.is_empty() {
            let f = self.pat[self.i % self.pat.len()];
            self.i += 1;
            Some(f)
        } else {
            None
        }
    }
}
type Src<F> = Counted<signal::FromIterator<PatIter<F>>>;
type Ctl = Counted<signal::FromIterator<std::vec::IntoIter<f64>>>;

trait Mk: Interpolator + Sized {
    /// Prime the interpolator from the source the way the crate's documentation does.
    fn mk<S: Signal<Frame = Self::Frame>>(s: &mut S) -> Self;
}
impl<F: Frame> Mk for Floor<F>
where
    F::Sample: Duplex<f64>,
{
    fn mk<S: Signal<Frame = F>>(s: &mut S) -> Self {
        Floor::new(s.next())
    }
}
impl<F: Frame> Mk for Linear<F>
where
    F::Sample: Duplex<f64>,
{
    fn mk<S: Signal<Frame = F>>(s: &mut S) -> Self {
        let a = s.next();
        let b = s.next();
        Linear::new(a, b)
    }
}

enum Machine<F: Frame, I: Interpolator<Frame = F>>
where
    F::Sample: Duplex<f64>,
{
    Conv(Converter<Src<F>, I>),
    Mul(MulHz<Src<F>, Ctl, I>),
}
impl<F: Frame, I: Interpolator<Frame = F>> Machine<F, I>
where
    F::Sample: Duplex<f64>,
{
    fn next(&mut self) -> F {
        match self {
            Machine::Conv(c) => c.next(),
            Machine::Mul(m) => m.next(),
        }
    }
    fn is_exhausted(&self) -> bool {
        match self {
            Machine::Conv(c) => c.is_exhausted(),
            Machine::Mul(m) => m.is_exhausted(),
        }
    }
}

/// The f64 arguments of a ratio-setting call and the witness quotient `q` (what the documented
/// formula `source_hz / target_hz` resp. `1.0 / scale` evaluates to; the trace specification verifies
/// q against x and y by multiplication and uses it as the ratio in effect).
fn ratio_args(a: &Value) -> (String, f64, f64, f64) {
    let (via, x, y) = if a.get("v").is_some() {
        // compact form written by TLC: family v and the integers p, q
        //   playback / sample: scale = p/q;   hz: source_hz = p * 11025, target_hz = q * 11025
        let via = a["v"].as_str().unwrap().to_string();
        let (p, q) = (a["p"].as_i64().unwrap() as f64, a["q"].as_i64().unwrap() as f64);
        if via == "hz" {
            (via, p * 11025.0, q * 11025.0)
        } else {
            (via, p / q, 1.0)
        }
    } else {
        let via = a["via"].as_str().unwrap_or("playback").to_string();
        (via, num(&a["x"]), if a.get("y").is_some() { num(&a["y"]) } else { 1.0 })
    };
    let q = match via.as_str() {
        "hz" => x / y,
        "sample" => 1.0 / x,
        _ => x,
    };
    (via, x, y, q)
}
fn ratio_json(via: &str, x: f64, y: f64, q: f64) -> Value {
    json!({"via": via, "x": f64f(x), "y": f64f(y), "q": f64f(q)})
}

fn exec<F, I>(out: &mut Out, ex: &[Value])
where
    F: Frame + 'static,
    F::Sample: Smp,
    I: Mk + Interpolator<Frame = F>,
{
    let cfg = &ex[0]["cfg"];
    let route = cfg["route"].as_str().unwrap().to_string();
    let pat: Vec<F> = cfg["pat"].as_array().unwrap().iter().map(|v| dec_frame::<F>(v)).collect();
    let len = cfg["len"].as_u64().unwrap() as usize;
    let (via, x, y, q) = ratio_args(&cfg["ratio"]);
    let ctl: Vec<f64> = cfg["ctl"].as_array().map(|a| a.iter().map(num).collect()).unwrap_or_default();
    let pulls = Rc::new(Cell::new(0u64));
    let cpulls = Rc::new(Cell::new(0u64));
    // echo of the configuration with every number in its canonical encoding
    let cfg_out = json!({
        "interp": cfg["interp"], "fmt": cfg["fmt"], "ch": cfg["ch"], "route": route,
        "pat": pat.iter().map(|f| enc_frame(*f)).collect::<Vec<_>>(), "len": len,
        "ratio": ratio_json(&via, x, y, q),
        "ctl": ctl.iter().map(|c| f64f(*c)).collect::<Vec<_>>(),
    });
    let (p2, c2) = (pulls.clone(), cpulls.clone());
    let built = catch(move || {
        let mut src: Src<F> = Counted { s: signal::from_iter(PatIter { pat, i: 0, len }), n: p2 };
        let interp = I::mk(&mut src);
        match route.as_str() {
            "sig_from_hz_to_hz" => Machine::Conv(src.from_hz_to_hz(interp, x, y)),
            "conv_from_hz_to_hz" => Machine::Conv(Converter::from_hz_to_hz(src, interp, x, y)),
            "scale_hz" => Machine::Conv(src.scale_hz(interp, x)),
            "scale_playback_hz" => Machine::Conv(Converter::scale_playback_hz(src, interp, x)),
            "scale_sample_hz" => Machine::Conv(Converter::scale_sample_hz(src, interp, x)),
            "mul_hz" => {
                let c: Ctl = Counted { s: signal::from_iter(ctl.into_iter()), n: c2 };
                Machine::Mul(src.mul_hz(interp, c))
            }
            r => panic!("unknown route {}", r),
        }
    });
    let obs = |pulls: &Rc<Cell<u64>>, cpulls: &Rc<Cell<u64>>| json!({"pulls": pulls.get(), "cpulls": cpulls.get()});
    let mut mach: Machine<F, I> = match built {
        None => {
            out.line(&json!({"ev":"reset","comp":"conv","cfg":cfg_out,"r":r_panic(),"o":obs(&pulls, &cpulls)}));
            return;
        }
        Some(m) => m,
    };
    out.line(&json!({"ev":"reset","comp":"conv","cfg":cfg_out,"r":r_unit(),"o":obs(&pulls, &cpulls)}));
    let eq = F::EQUILIBRIUM;
    for op in &ex[1..] {
        let ev = op["ev"].as_str().unwrap();
        let a = &op["a"];
        match ev {
            "next" => {
                let before = catch(|| mach.is_exhausted());
                let (r, h, _) = measured(|| catch(|| mach.next()));
                let after = catch(|| mach.is_exhausted());
                let mut o = obs(&pulls, &cpulls);
                o["exh_before"] = json!(before.unwrap_or(false));
                o["exh_after"] = json!(after.unwrap_or(false));
                o["ok"] = json!(before.is_some() && after.is_some());
                let rj = match r {
                    Some(f) => r_val(enc_frame(f)),
                    None => r_panic(),
                };
                out.ev("next", json!({"n": 1}), rj, o, h);
            }
            "is_exhausted" => {
                let (r, h, _) = measured(|| catch(|| mach.is_exhausted()));
                let rj = match r {
                    Some(b) => r_val(json!(b)),
                    None => r_panic(),
                };
                out.ev("is_exhausted", json!({"n": 0}), rj, obs(&pulls, &cpulls), h);
            }
            "set_ratio" => {
                let (via, x, y, q) = ratio_args(a);
                let (r, h, _) = measured(|| {
                    catch(|| match &mut mach {
                        Machine::Conv(c) => match via.as_str() {
                            "hz" => c.set_hz_to_hz(x, y),
                            "sample" => c.set_sample_hz_scale(x),
                            _ => c.set_playback_hz_scale(x),
                        },
                        Machine::Mul(_) => panic!("harness: set_ratio on mul_hz"),
                    })
                });
                let rj = if r.is_some() { r_unit() } else { r_panic() };
                out.ev("set_ratio", ratio_json(&via, x, y, q), rj, obs(&pulls, &cpulls), h);
            }
            "collect" => {
                let cap = a["n"].as_u64().unwrap() as usize;
                let mut items: Vec<F> = Vec::with_capacity(cap);
                let (r, h, _) = measured(|| {
                    catch(|| match &mut mach {
                        Machine::Conv(c) => {
                            for f in c.by_ref().until_exhausted().take(cap) {
                                items.push(f);
                            }
                        }
                        Machine::Mul(m) => {
                            for f in m.by_ref().until_exhausted().take(cap) {
                                items.push(f);
                            }
                        }
                    })
                });
                let after = catch(|| mach.is_exhausted());
                let mut o = obs(&pulls, &cpulls);
                o["exh_after"] = json!(after.unwrap_or(false));
                let rj = if r.is_some() {
                    r_items(Value::Array(items.iter().map(|f| enc_frame(*f)).collect()))
                } else {
                    r_panic()
                };
                out.ev("collect", json!({"n": cap}), rj, o, h);
            }
            "run" => {
                // n consecutive next() calls, aggregated: last frame, pull counters, how many of the
                // calls found the signal exhausted beforehand
                let n = a["n"].as_u64().unwrap();
                let mut last = eq;
                let mut exh_cnt = 0u64;
                let (r, h, _) = measured(|| {
                    catch(|| {
                        for _ in 0..n {
                            if mach.is_exhausted() {
                                exh_cnt += 1;
                            }
                            last = mach.next();
                        }
                    })
                });
                let after = catch(|| mach.is_exhausted());
                let mut o = obs(&pulls, &cpulls);
                o["exh_cnt"] = json!(exh_cnt);
                o["exh_after"] = json!(after.unwrap_or(false));
                let rj = if r.is_some() { r_val(enc_frame(last)) } else { r_panic() };
                out.ev("run", json!({"n": n}), rj, o, h);
            }
            e => panic!("unknown op {}", e),
        }
    }
}

fn exec_fmt<S: Smp>(out: &mut Out, ex: &[Value])
where
    S: Frame<Sample = S>,
    [S; 2]: Frame<Sample = S>,
{
    let cfg = &ex[0]["cfg"];
    let lin = cfg["interp"] == "linear";
    match (cfg["ch"].as_i64().unwrap(), lin) {
        (1, false) => exec::<S, Floor<S>>(out, ex),
        (1, true) => exec::<S, Linear<S>>(out, ex),
        (2, false) => exec::<[S; 2], Floor<[S; 2]>>(out, ex),
        (2, true) => exec::<[S; 2], Linear<[S; 2]>>(out, ex),
        _ => panic!("channels"),
    }
}
fn exec_any(out: &mut Out, ex: &[Value]) {
    match ex[0]["cfg"]["fmt"].as_str().unwrap() {
        "f64" => exec_fmt::<f64>(out, ex),
        "f32" => exec_fmt::<f32>(out, ex),
        "i16" => exec_fmt::<i16>(out, ex),
        "u8" => exec_fmt::<u8>(out, ex),
        f => panic!("format {}", f),
    }
}

// ---------------------------------------------------------------------------- random stimuli

fn rand_unit_f64(rng: &mut Rng) -> f64 {
    // full 53-bit mantissa in [-1, 1)
    let m = (rng.next() >> 11) as f64 / (1u64 << 53) as f64;
    m * 2.0 - 1.0
}
fn rand_sample(rng: &mut Rng, fmt: &str, style: u64) -> Value {
    // style 0: small integers (exact blends at dyadic fractions); 1: full precision; 2: extremes mixed in
    match fmt {
        "f64" => match style {
            0 => json!(rng.range(-8, 8)),
            1 => f64f(rand_unit_f64(rng)),
            _ => match rng.below(6) {
                0 => f64f(0.0),
                1 => f64f(-0.0),
                2 => f64f(rand_unit_f64(rng) * 2f64.powi(rng.range(-60, 60) as i32)),
                3 => f64f(f64::from_bits(rng.below(1 << 40))), // subnormal
                _ => f64f(rand_unit_f64(rng)),
            },
        },
        "f32" => match style {
            0 => json!(rng.range(-8, 8)),
            1 => f32f(rand_unit_f64(rng) as f32),
            _ => match rng.below(6) {
                0 => f32f(0.0),
                1 => f32f(-0.0),
                2 => f32f((rand_unit_f64(rng) * 2f64.powi(rng.range(-30, 30) as i32)) as f32),
                3 => f32f(f32::from_bits(rng.below(1 << 20) as u32)), // subnormal
                _ => f32f(rand_unit_f64(rng) as f32),
            },
        },
        "i16" => match style {
            0 => json!(rng.range(-8, 8) * 256),
            1 => json!(rng.range(-32768, 32767)),
            _ => json!(*rng.pick(&[-32768i64, 32767, 0, -1, 1, 12345, -32767])),
        },
        _ => match style {
            0 => json!(128 + rng.range(-8, 7) * 16),
            1 => json!(rng.range(0, 255)),
            _ => json!(*rng.pick(&[0i64, 255, 128, 127, 129, 1])),
        },
    }
}
/// A ratio-setting argument record for a given family.  Non-dyadic and dyadic, below and above 1.
fn rand_ratio(rng: &mut Rng, via: &str, dyadic_only: bool) -> Value {
    let hz_pairs: [(f64, f64); 10] = [
        (44100.0, 48000.0), (48000.0, 44100.0), (44100.0, 96000.0), (96000.0, 44100.0), (22050.0, 44100.0),
        (8000.0, 44100.0), (44100.0, 8000.0), (48000.0, 48000.0), (1.0, 3.0), (11025.0, 3.0),
    ];
    let scales: [f64; 16] = [
        0.1, 1.0 / 3.0, 3.7, 0.999_999, 1.000_000_1, 2.5, 0.75, 1.0, 1.25, 7.0, 0.015625, 1023.5, 0.3, 1.9, 5.000_000_1,
        std::f64::consts::PI,
    ];
    let dy: [f64; 9] = [0.25, 0.5, 0.75, 1.0, 1.25, 1.5, 2.0, 3.0, 1.0625];
    match via {
        "hz" => {
            let (a, b) = if dyadic_only { (*rng.pick(&dy) * 4096.0, 4096.0) } else { *rng.pick(&hz_pairs) };
            json!({"via":"hz","x":f64f(a),"y":f64f(b)})
        }
        "sample" => {
            let s = if dyadic_only {
                *rng.pick(&[0.25, 0.5, 1.0, 2.0, 4.0])
            } else if rng.chance(1, 2) {
                *rng.pick(&scales)
            } else {
                0.05 + (rng.next() >> 11) as f64 / (1u64 << 53) as f64 * 6.0
            };
            json!({"via":"sample","x":f64f(s),"y":f64f(1.0)})
        }
        _ => {
            let s = if dyadic_only {
                *rng.pick(&dy)
            } else if rng.chance(1, 2) {
                *rng.pick(&scales)
            } else {
                0.05 + (rng.next() >> 11) as f64 / (1u64 << 53) as f64 * 6.0
            };
            json!({"via":"playback","x":f64f(s),"y":f64f(1.0)})
        }
    }
}
fn route_via(route: &str) -> &'static str {
    match route {
        "sig_from_hz_to_hz" | "conv_from_hz_to_hz" => "hz",
        "scale_sample_hz" => "sample",
        _ => "playback",
    }
}
const ROUTES: [&str; 6] =
    ["sig_from_hz_to_hz", "conv_from_hz_to_hz", "scale_hz", "scale_playback_hz", "scale_sample_hz", "mul_hz"];
const FMTS: [&str; 4] = ["f64", "f32", "i16", "u8"];

fn rand_pat(rng: &mut Rng, fmt: &str, ch: usize, n: usize, style: u64) -> Vec<Value> {
    (0..n).map(|_| Value::Array((0..ch).map(|_| rand_sample(rng, fmt, style)).collect())).collect()
}
fn op(ev: &str) -> Value {
    json!({"ev": ev, "a": {"n": 0}})
}

fn gen(seed: u64, size: &str, path: &str) {
    let mut rng = Rng::new(seed);
    // size: quick | thorough (everything), <tier>-short (parts A, B), <tier>-long (part C only)
    let thorough = size.starts_with("thorough");
    let (want_short, want_long) = (!size.ends_with("-long"), !size.ends_with("-short"));
    let mut execs: Vec<Vec<Value>> = Vec::new();
    // (A) many short histories: every route / format / interpolator, ratio changes before any frame
    let n_short = if !want_short { 0 } else if thorough { 1200 } else { 160 };
    for h in 0..n_short {
        let interp = if h % 2 == 0 { "floor" } else { "linear" };
        let fmt = FMTS[(h / 2) % 4];
        let ch = 1 + (h / 8) % 2;
        let route = ROUTES[(h / 16) % 6];
        let style = rng.below(3);
        let dyadic = rng.chance(1, 4);
        let len = match rng.below(8) {
            0 => rng.below(3),
            1..=5 => rng.range(3, 24) as u64,
            _ => rng.range(25, 60) as u64,
        } as usize;
        let pat = rand_pat(&mut rng, fmt, ch, len.min(32), style);
        let n_ops = rng.range(10, if thorough { 120 } else { 60 }) as usize;
        let mut ex = Vec::new();
        let mut ratio = rand_ratio(&mut rng, route_via(route), dyadic);
        // now and then an invalid constructor argument (documented assertion: scale must be > 0)
        if route != "mul_hz" && rng.chance(1, 40) {
            ratio = match route_via(route) {
                "hz" => json!({"via":"hz","x":f64f(*rng.pick(&[0.0, -44100.0])),"y":f64f(48000.0)}),
                "sample" => json!({"via":"sample","x":f64f(-2.0),"y":f64f(1.0)}),
                _ => json!({"via":"playback","x":f64f(*rng.pick(&[0.0, -0.0, -1.5])),"y":f64f(1.0)}),
            };
        }
        let ctl: Vec<Value> = if route == "mul_hz" {
            let n = if rng.chance(1, 3) { n_ops + 5 } else { rng.below(n_ops as u64 + 1) as usize };
            let mut cur = rand_ratio(&mut rng, "playback", dyadic)["x"].clone();
            (0..n).map(|_| {
                if rng.chance(1, 3) { cur = rand_ratio(&mut rng, "playback", dyadic)["x"].clone(); }
                cur.clone()
            }).collect()
        } else {
            Vec::new()
        };
        ex.push(json!({"ev":"reset","comp":"conv","cfg":{"interp":interp,"fmt":fmt,"ch":ch,"route":route,
                       "pat":pat,"len":len,"ratio":ratio,"ctl":ctl}}));
        let mut k = 0;
        while k < n_ops {
            let c = rng.below(100);
            if c < 70 {
                ex.push(op("next"));
            } else if c < 80 {
                ex.push(op("is_exhausted"));
            } else if c < 93 {
                if route != "mul_hz" {
                    let via = *rng.pick(&["playback", "playback", "sample", "hz"]);
                    ex.push(json!({"ev":"set_ratio","a":rand_ratio(&mut rng, via, dyadic)}));
                } else {
                    ex.push(op("next"));
                }
            } else if c < 97 {
                ex.push(json!({"ev":"run","a":{"n":rng.range(2, 9)}}));
            } else {
                ex.push(json!({"ev":"collect","a":{"n":rng.range(1, 300)}}));
            }
            k += 1;
        }
        execs.push(ex);
    }
    // (B) until_exhausted with constant non-dyadic ratios
    let n_coll = if !want_short { 0 } else if thorough { 300 } else { 60 };
    let mut colls: Vec<Vec<Value>> = Vec::new();
    for h in 0..n_coll {
        let interp = if h % 2 == 0 { "floor" } else { "linear" };
        let fmt = FMTS[(h / 2) % 4];
        let route = ROUTES[(h / 8) % 5];
        let len = rng.range(0, 40) as usize;
        let pat = rand_pat(&mut rng, fmt, 1, len.min(16), 1);
        let ratio = rand_ratio(&mut rng, route_via(route), false);
        colls.push(vec![
            json!({"ev":"reset","comp":"conv","cfg":{"interp":interp,"fmt":fmt,"ch":1,"route":route,
                   "pat":pat,"len":len,"ratio":ratio,"ctl":[]}}),
            json!({"ev":"collect","a":{"n":1000}}),
            op("is_exhausted"),
            op("next"),
            op("is_exhausted"),
        ]);
    }
    // spread the collections among the histories (the trace is cut into pieces for parallel validation)
    if !colls.is_empty() {
        let every = (execs.len() / colls.len()).max(1);
        let mut mixed = Vec::new();
        let mut ci = colls.into_iter();
        for (k, e) in execs.into_iter().enumerate() {
            mixed.push(e);
            if k % every == every - 1 {
                if let Some(c) = ci.next() {
                    mixed.push(c);
                }
            }
        }
        mixed.extend(ci);
        execs = mixed;
    }
    // (C) long runs (drift): constant non-dyadic ratio, the first outputs one by one, then blocks of
    // `run` with a handful of individual outputs between them; the source runs dry near the end
    // (the trace specification needs about 1 ms per output, one JVM per long run)
    let n_long = if !want_long { 0 } else { 8 };
    let block = if thorough { 1000u64 } else { 500u64 };
    let totals: [u64; 8] = if thorough {
        [100_000, 100_000, 100_000, 30_000, 30_000, 30_000, 30_000, 30_000]
    } else {
        [10_000, 10_000, 3_000, 3_000, 3_000, 3_000, 3_000, 3_000]
    };
    let long_ratios: [(&str, f64, f64); 8] = [
        ("hz", 44100.0, 48000.0), ("hz", 48000.0, 44100.0), ("sample", 3.0, 1.0), ("playback", 3.7, 1.0),
        ("playback", 0.1, 1.0), ("hz", 44100.0, 96000.0), ("playback", 1.000_000_1, 1.0), ("sample", 0.7, 1.0),
    ];
    for h in 0..n_long {
        let (via, x, y) = long_ratios[h % 8];
        let total = totals[h % 8];
        let route = match via {
            "hz" => if h % 2 == 0 { "sig_from_hz_to_hz" } else { "conv_from_hz_to_hz" },
            "sample" => "scale_sample_hz",
            _ => if h % 2 == 0 { "scale_hz" } else { "scale_playback_hz" },
        };
        let interp = if h % 2 == 0 { "linear" } else { "floor" };
        let fmt = FMTS[h % 4];
        let ch = 1 + (h / 4) % 2;
        let r = match via { "hz" => x / y, "sample" => 1.0 / x, _ => x };
        let len = ((total as f64) * r * 0.97) as usize;
        let pat = rand_pat(&mut rng, fmt, ch, 37 + h, 1);
        let mut ex = vec![json!({"ev":"reset","comp":"conv","cfg":{"interp":interp,"fmt":fmt,"ch":ch,"route":route,
                          "pat":pat,"len":len,"ratio":{"via":via,"x":f64f(x),"y":f64f(y)},"ctl":[]}})];
        let mut done = 0u64;
        for _ in 0..200 {
            ex.push(op("next"));
            done += 1;
        }
        while done + block + 3 <= total {
            ex.push(json!({"ev":"run","a":{"n":block}}));
            ex.push(op("next"));
            ex.push(op("next"));
            ex.push(op("is_exhausted"));
            done += block + 2;
        }
        while done < total {
            ex.push(op("next"));
            done += 1;
        }
        execs.push(ex);
    }
    write_stimuli(path, &execs);
}

fn main() {
    let c = cli();
    silence_panics();
    match c.mode.as_str() {
        "gen" => gen(c.a1.parse().unwrap(), &c.a2, &c.a3),
        "run" => {
            let n = drive(&c.a1, &c.a2, |out, ex| exec_any(out, ex));
            eprintln!("hx_conv: {} events", n);
        }
        _ => {
            eprintln!("usage: hx_conv run <stimuli> <trace> | gen <seed> <quick|thorough> <stimuli>");
            std::process::exit(2);
        }
    }
}
