//! Shared plumbing of the conformance harnesses: ndjson trace output, encodings of wide
//! integers / IEEE floats that survive TLC's JSON reader, a counting global allocator,
//! panic capture and a seeded PRNG.  No oracle logic lives here or in any hx_* crate.

use serde_json::{json, Map, Value};
use std::alloc::{GlobalAlloc, Layout, System};
use std::io::{BufRead, BufWriter, Write};
use std::panic::{catch_unwind, AssertUnwindSafe};
use std::sync::atomic::{AtomicI64, Ordering::Relaxed};

// ------------------------------------------------------------------------------------------
// counting allocator (declare `#[global_allocator] static A: hx_common::CountingAlloc = hx_common::CountingAlloc;`
// in each harness binary)

pub struct CountingAlloc;
static ALLOCS: AtomicI64 = AtomicI64::new(0);
static REALLOCS: AtomicI64 = AtomicI64::new(0);
static FREES: AtomicI64 = AtomicI64::new(0);
static LIVE: AtomicI64 = AtomicI64::new(0);

unsafe impl GlobalAlloc for CountingAlloc {
    unsafe fn alloc(&self, l: Layout) -> *mut u8 {
        ALLOCS.fetch_add(1, Relaxed);
        LIVE.fetch_add(l.size() as i64, Relaxed);
        System.alloc(l)
    }
    unsafe fn dealloc(&self, p: *mut u8, l: Layout) {
        FREES.fetch_add(1, Relaxed);
        LIVE.fetch_sub(l.size() as i64, Relaxed);
        System.dealloc(p, l)
    }
    unsafe fn alloc_zeroed(&self, l: Layout) -> *mut u8 {
        ALLOCS.fetch_add(1, Relaxed);
        LIVE.fetch_add(l.size() as i64, Relaxed);
        System.alloc_zeroed(l)
    }
    unsafe fn realloc(&self, p: *mut u8, l: Layout, new: usize) -> *mut u8 {
        REALLOCS.fetch_add(1, Relaxed);
        LIVE.fetch_add(new as i64 - l.size() as i64, Relaxed);
        System.realloc(p, l, new)
    }
}

/// (allocs, reallocs, frees, live bytes) so far.
#[derive(Clone, Copy, Debug, PartialEq, Eq)]
pub struct Heap(pub [i64; 4]);
pub fn heap_now() -> Heap {
    Heap([ALLOCS.load(Relaxed), REALLOCS.load(Relaxed), FREES.load(Relaxed), LIVE.load(Relaxed)])
}
impl Heap {
    pub fn since(self, before: Heap) -> [i64; 4] {
        [self.0[0] - before.0[0], self.0[1] - before.0[1], self.0[2] - before.0[2], self.0[3] - before.0[3]]
    }
}
/// Run `f`, returning its result and the heap activity inside the call:
/// `[allocs, reallocs, frees]` (the `h` field of a trace event) and the change in live bytes.
pub fn measured<T>(f: impl FnOnce() -> T) -> (T, [i64; 3], i64) {
    let b = heap_now();
    let r = f();
    let d = heap_now().since(b);
    (r, [d[0], d[1], d[2]], d[3])
}

// ------------------------------------------------------------------------------------------
// panic capture: a panic in the code under test is data

static IN_CATCH: AtomicI64 = AtomicI64::new(0);
/// Panics inside `catch` are expected data and stay silent; a panic of the harness itself is printed.
pub fn silence_panics() {
    let default = std::panic::take_hook();
    std::panic::set_hook(Box::new(move |info| {
        if IN_CATCH.load(Relaxed) == 0 || std::env::var("HX_LOUD").is_ok() {
            default(info);
        }
    }));
}
pub fn catch<T>(f: impl FnOnce() -> T) -> Option<T> {
    IN_CATCH.fetch_add(1, Relaxed);
    let r = catch_unwind(AssertUnwindSafe(f)).ok();
    IN_CATCH.fetch_sub(1, Relaxed);
    r
}

// ------------------------------------------------------------------------------------------
// return-value records: {"k":"some","v":..} {"k":"none"} {"k":"panic"} {"k":"unit"} {"k":"items","v":[..]}

pub fn r_some(v: Value) -> Value {
    json!({"k":"some","v":v})
}
pub fn r_none() -> Value {
    json!({"k":"none"})
}
pub fn r_panic() -> Value {
    json!({"k":"panic"})
}
pub fn r_unit() -> Value {
    json!({"k":"unit"})
}
pub fn r_items(v: Value) -> Value {
    json!({"k":"items","v":v})
}
pub fn r_val(v: Value) -> Value {
    json!({"k":"val","v":v})
}
pub fn r_opt(v: Option<Value>) -> Value {
    match v {
        Some(v) => r_some(v),
        None => r_none(),
    }
}

// ------------------------------------------------------------------------------------------
// number encodings (TLC's JSON reader wraps integers to 32 bits and truncates decimals)

/// Little-endian 15-bit limbs of a magnitude (empty for zero).
pub fn limbs(mut m: u128) -> Value {
    let mut v = Vec::new();
    while m != 0 {
        v.push(json!((m & 0x7fff) as u32));
        m >>= 15;
    }
    Value::Array(v)
}
/// Signed wide integer {"n":0|1,"l":[limbs]}.
pub fn big(v: i128) -> Value {
    json!({"n": if v < 0 {1} else {0}, "l": limbs(v.unsigned_abs())})
}
pub fn big_u(v: u128) -> Value {
    json!({"n": 0, "l": limbs(v)})
}
/// Decode {"n","l"} back (stimuli use the same encoding).
pub fn unbig(v: &Value) -> i128 {
    let mut m: u128 = 0;
    for (i, l) in v["l"].as_array().expect("limbs").iter().enumerate() {
        m |= (l.as_u64().unwrap() as u128) << (15 * i);
    }
    if v["n"].as_i64().unwrap_or(0) == 1 {
        -(m as i128)
    } else {
        m as i128
    }
}
/// IEEE binary32 as raw fields {"s","e","m":[limbs]}.
pub fn f32f(x: f32) -> Value {
    let b = x.to_bits();
    json!({"s": b >> 31, "e": (b >> 23) & 0xff, "m": limbs((b & 0x7f_ffff) as u128)})
}
pub fn f64f(x: f64) -> Value {
    let b = x.to_bits();
    json!({"s": b >> 63, "e": (b >> 52) & 0x7ff, "m": limbs((b & ((1u64 << 52) - 1)) as u128)})
}
pub fn unf32(v: &Value) -> f32 {
    let m = unbig(&json!({"n":0,"l":v["m"].clone()})) as u32;
    f32::from_bits(((v["s"].as_u64().unwrap() as u32) << 31) | ((v["e"].as_u64().unwrap() as u32) << 23) | m)
}
pub fn unf64(v: &Value) -> f64 {
    let m = unbig(&json!({"n":0,"l":v["m"].clone()})) as u64;
    f64::from_bits((v["s"].as_u64().unwrap() << 63) | (v["e"].as_u64().unwrap() << 52) | m)
}

// ------------------------------------------------------------------------------------------
// trace output / stimuli input

pub struct Out {
    w: BufWriter<std::fs::File>,
    pub events: u64,
    careful: bool,
}
impl Out {
    pub fn create(path: &str) -> Out {
        Out { w: BufWriter::with_capacity(1 << 20, std::fs::File::create(path).expect("create trace")), events: 0, careful: false }
    }
    pub fn line(&mut self, v: &Value) {
        serde_json::to_writer(&mut self.w, v).unwrap();
        self.w.write_all(b"\n").unwrap();
        self.events += 1;
        if self.careful {
            self.w.flush().unwrap();
        }
    }
    /// One call at its return: event name, arguments, return record, observations, heap counters.
    pub fn ev(&mut self, ev: &str, a: Value, r: Value, o: Value, h: [i64; 3]) {
        self.line(&json!({"ev": ev, "a": a, "r": r, "o": o, "h": h}));
    }
    pub fn finish(mut self) {
        self.w.flush().unwrap();
    }
}

/// A stimulus file holds one execution per line: a JSON array `[reset, op, op, ...]`
/// (what TLC's ndJsonSerialize writes for a sequence of tuples).  A file with one event per
/// line (a trace excerpt saved as a replay file) is accepted too: `reset` starts an execution.
pub fn read_stimuli(path: &str) -> Vec<Vec<Value>> {
    let f = std::io::BufReader::new(std::fs::File::open(path).expect("open stimuli"));
    let mut out: Vec<Vec<Value>> = Vec::new();
    for line in f.lines() {
        let line = line.unwrap();
        if line.trim().is_empty() {
            continue;
        }
        let v: Value = serde_json::from_str(&line).expect("stimulus json");
        match v {
            Value::Array(evs) => out.push(evs),
            Value::Object(_) => {
                if v["ev"] == "reset" || out.is_empty() {
                    out.push(vec![v]);
                } else {
                    out.last_mut().unwrap().push(v);
                }
            }
            _ => panic!("bad stimulus line"),
        }
    }
    out
}
/// Execute every stimulus execution of `stim` with `f`, writing the trace to `trace`.
/// If the code under test can bring the whole process down (abort, segfault), the Python driver
/// re-runs with HX_CAREFUL=1 (flush every line, record the index of the execution in progress in
/// `<trace>.progress`) and HX_FROM=<k> (skip the first k executions, append to the trace), so a
/// crash is attributed to the exact stimulus and everything else is still executed and judged.
pub fn drive(stim: &str, trace: &str, mut f: impl FnMut(&mut Out, &[Value])) -> u64 {
    let careful = std::env::var("HX_CAREFUL").is_ok();
    let from: usize = std::env::var("HX_FROM").ok().and_then(|s| s.parse().ok()).unwrap_or(0);
    let file = if from > 0 {
        std::fs::OpenOptions::new().append(true).open(trace).expect("append trace")
    } else {
        std::fs::File::create(trace).expect("create trace")
    };
    let mut out = Out { w: BufWriter::with_capacity(1 << 20, file), events: 0, careful };
    for (k, ex) in read_stimuli(stim).iter().enumerate().skip(from) {
        if careful {
            std::fs::write(format!("{}.progress", trace), format!("{}", k)).unwrap();
        }
        f(&mut out, ex);
    }
    let n = out.events;
    out.finish();
    n
}
pub fn write_stimuli(path: &str, execs: &[Vec<Value>]) {
    let mut w = BufWriter::new(std::fs::File::create(path).expect("create stimuli"));
    for e in execs {
        serde_json::to_writer(&mut w, &Value::Array(e.clone())).unwrap();
        w.write_all(b"\n").unwrap();
    }
    w.flush().unwrap();
}
pub fn obj(pairs: Vec<(&str, Value)>) -> Value {
    let mut m = Map::new();
    for (k, v) in pairs {
        m.insert(k.to_string(), v);
    }
    Value::Object(m)
}
pub fn i(v: &Value) -> i64 {
    v.as_i64().expect("int")
}
pub fn ints(v: &Value) -> Vec<i64> {
    v.as_array().expect("array").iter().map(|x| x.as_i64().expect("int")).collect()
}

// ------------------------------------------------------------------------------------------
// PRNG (splitmix64): every random choice derives from VERIF_SEED

#[derive(Clone)]
pub struct Rng(pub u64);
impl Rng {
    pub fn new(seed: u64) -> Rng {
        Rng(seed ^ 0x9e37_79b9_7f4a_7c15)
    }
    pub fn next(&mut self) -> u64 {
        self.0 = self.0.wrapping_add(0x9e37_79b9_7f4a_7c15);
        let mut z = self.0;
        z = (z ^ (z >> 30)).wrapping_mul(0xbf58_476d_1ce4_e5b9);
        z = (z ^ (z >> 27)).wrapping_mul(0x94d0_49bb_1331_11eb);
        z ^ (z >> 31)
    }
    /// uniform in 0..n (n >= 1)
    pub fn below(&mut self, n: u64) -> u64 {
        self.next() % n
    }
    pub fn range(&mut self, lo: i64, hi: i64) -> i64 {
        lo + (self.next() % ((hi - lo + 1) as u64)) as i64
    }
    pub fn chance(&mut self, num: u64, den: u64) -> bool {
        self.below(den) < num
    }
    pub fn pick<'a, T>(&mut self, xs: &'a [T]) -> &'a T {
        &xs[self.below(xs.len() as u64) as usize]
    }
}

/// Common CLI: `hx_x run <stimuli> <trace-out>` | `hx_x gen <seed> <size> <stimuli-out>`.
pub struct Cli {
    pub mode: String,
    pub a1: String,
    pub a2: String,
    pub a3: String,
}
pub fn cli() -> Cli {
    let a: Vec<String> = std::env::args().collect();
    let g = |k: usize| a.get(k).cloned().unwrap_or_default();
    Cli { mode: g(1), a1: g(2), a2: g(3), a3: g(4) }
}
