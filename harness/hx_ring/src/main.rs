//! Driver + logger for dasp_ring_buffer::{Bounded, Fixed}.  Executes stimuli (from TLC's
//! MC_RingBuffer or from `gen`) on the real types over several storage kinds and logs every
//! call at its return; Trace_RingBuffer.tla judges the log.
use dasp_ring_buffer::{Bounded, Fixed, SliceMut};
use hx_common::*;
use serde_json::{json, Value};
use std::iter::FromIterator;

#[global_allocator]
static A: CountingAlloc = CountingAlloc;

/// `clone` events: the buffer is replaced by its clone where the storage can be cloned (a `&mut [T]` cannot:
/// the event is then a no-op, which is also what the specification says a clone is for the abstract queue).
trait Dup: Sized {
    fn dup(&self) -> Option<Self>;
}
macro_rules! dup {
    ($($t:ty),*) => { $(
        impl Dup for Bounded<$t> { fn dup(&self) -> Option<Self> { Some(self.clone()) } }
        impl Dup for Fixed<$t> { fn dup(&self) -> Option<Self> { Some(self.clone()) } }
    )* };
}
dup!(Vec<i32>, Box<[i32]>, [i32; 1], [i32; 2], [i32; 3], [i32; 4], [i32; 5], [i32; 6], [i32; 7], [i32; 8]);
impl Dup for Bounded<&'static mut [i32]> { fn dup(&self) -> Option<Self> { None } }
impl Dup for Fixed<&'static mut [i32]> { fn dup(&self) -> Option<Self> { None } }

/// `fmt` events: Debug formatting into a sink that cannot allocate (C07 counts it as an operation like any other).
struct Sink {
    n: usize,
}
impl std::fmt::Write for Sink {
    fn write_str(&mut self, s: &str) -> std::fmt::Result {
        self.n += s.len();
        Ok(())
    }
}

const PAD: usize = 4;
const CANARY: i32 = -999;

/// Raw outcome of a call; turned into JSON only after the heap-measurement window has closed.
enum R {
    Opt(Option<i32>),
    Unit,
    Items,
}
fn rj(r: Option<R>, items: &[i32]) -> Value {
    match r {
        None => r_panic(),
        Some(R::Opt(o)) => r_opt(o.map(|x| json!(x))),
        Some(R::Unit) => r_unit(),
        Some(R::Items) => r_items(iv(items)),
    }
}
fn iv(xs: &[i32]) -> Value {
    json!(xs)
}
fn idx(a: &Value) -> usize {
    let i = a["i"].as_i64().unwrap();
    if i < 0 {
        usize::MAX
    } else {
        i as usize
    }
}
fn vs(a: &Value) -> Vec<i32> {
    ints(&a["vs"]).into_iter().map(|x| x as i32).collect()
}

// ---------------------------------------------------------------------------- Bounded

fn obs_bounded<S: SliceMut<Element = i32>>(mut rb: Bounded<S>, canary: &dyn Fn() -> bool) -> (Bounded<S>, Value) {
    // the drain iterator's ExactSizeIterator::len / size_hint (creating it pops nothing)
    let dlen = catch(|| {
        let d = rb.drain();
        let (lo, hi) = d.size_hint();
        json!([d.len(), lo, hi.unwrap_or(usize::MAX)])
    });
    let views = catch(|| {
        let len = rb.len();
        let cap = rb.max_len();
        let iter: Vec<i32> = rb.iter().cloned().collect();
        let get: Vec<i32> = (0..len).map(|i| *rb.get(i).unwrap_or(&-555)).collect();
        let index: Vec<i32> = (0..len).map(|i| rb[i]).collect();
        let oob = rb.get(len).is_none() && rb.get(len + cap).is_none() && rb.get(usize::MAX).is_none();
        let (s1, s2) = rb.slices();
        json!({"ok": true, "len": len, "max": cap, "empty": rb.is_empty(), "full": rb.is_full(),
               "iter": iter, "get": get, "idx": index, "get_oob": oob, "s1": s1, "s2": s2})
    });
    let (start, len, data) = unsafe { rb.into_raw_parts() };
    let raw = json!({"start": start, "len": len, "data": data.slice()});
    let rb = unsafe { Bounded::from_raw_parts_unchecked(start, len, data) };
    let mut o = views.unwrap_or_else(|| json!({"ok": false}));
    o["raw"] = raw;
    o["canary"] = json!(canary());
    match dlen {
        Some(d) => o["drain_len"] = d,
        None => o["ok"] = json!(false),
    }
    (rb, o)
}

fn run_bounded<S: SliceMut<Element = i32> + std::fmt::Debug>(
    out: &mut Out,
    reset: &Value,
    ops: &[Value],
    storage: &str,
    build: impl FnOnce() -> Bounded<S>,
    canary: &dyn Fn() -> bool,
) where
    Bounded<S>: Dup,
{
    let mut cfg = reset["cfg"].clone();
    cfg["storage"] = json!(storage);
    let built = catch(build);
    let mut rb = match built {
        None => {
            out.line(&json!({"ev":"reset","comp":"bounded","cfg":cfg,"r":r_panic(),"o":{"ok":false}}));
            return;
        }
        Some(rb) => rb,
    };
    let (rb2, o) = obs_bounded(rb, canary);
    rb = rb2;
    out.line(&json!({"ev":"reset","comp":"bounded","cfg":cfg,"r":r_unit(),"o":o}));
    for op in ops {
        let ev = op["ev"].as_str().unwrap();
        let a = &op["a"];
        // buffers the driver itself needs are allocated outside the measured window
        let mut items: Vec<i32> = Vec::with_capacity(rb.max_len() + 2);
        let wr = if a["vs"].is_array() { vs(a) } else { Vec::new() };
        let ix = if a["i"].is_i64() { idx(a) } else { 0 };
        let wv = a["v"].as_i64().unwrap_or(0) as i32;
        let kk = a["k"].as_u64().unwrap_or(0) as usize;
        let mm = a["m"].as_u64().unwrap_or(0) as usize;
        let _ = (ix, wv, kk, mm);
        let (r, h, _) = measured(|| {
            catch(|| match ev {
                "push" => R::Opt(rb.push(wv)),
                "pop" => R::Opt(rb.pop()),
                "views" => R::Unit,
                "fmt" => {
                    use std::fmt::Write;
                    let mut sink = Sink { n: 0 };
                    write!(sink, "{:?}", rb).unwrap();
                    assert!(sink.n > 0);
                    R::Unit
                }
                "clone" => {
                    if let Some(c) = rb.dup() {
                        rb = c;
                    }
                    R::Unit
                }
                "get" => R::Opt(rb.get(ix).cloned()),
                "index" => R::Opt(Some(rb[ix])),
                "get_mut" => match rb.get_mut(ix) {
                    Some(r) => {
                        let old = *r;
                        *r = wv;
                        R::Opt(Some(old))
                    }
                    None => R::Opt(None),
                },
                "index_mut" => {
                    // one IndexMut call (reading through Index first would hide an IndexMut that accepts more)
                    let r = &mut rb[ix];
                    let old = *r;
                    *r = wv;
                    R::Opt(Some(old))
                }
                "drain" => {
                    for x in rb.drain().take(kk) {
                        items.push(x);
                    }
                    R::Items
                }
                // the provided Iterator methods of the draining iterator
                "drain_nth" => R::Opt(rb.drain().nth(kk)),
                "drain_step" => {
                    for x in rb.drain().step_by(kk).take(mm) {
                        items.push(x);
                    }
                    R::Items
                }
                "drain_last" => R::Opt(rb.drain().last()),
                "drain_count" => R::Opt(Some(rb.drain().count() as i32)),
                "iter_mut" => {
                    for (r, w) in rb.iter_mut().zip(wr.iter()) {
                        items.push(*r);
                        *r = *w;
                    }
                    R::Items
                }
                "slices_mut" => {
                    let (s1, s2) = rb.slices_mut();
                    let mut k = 0;
                    for r in s1.iter_mut().chain(s2.iter_mut()) {
                        if k < wr.len() {
                            items.push(*r);
                            *r = wr[k];
                            k += 1;
                        }
                    }
                    R::Items
                }
                "extend" => {
                    rb.extend(wr.iter().cloned());
                    R::Unit
                }
                _ => panic!("unknown op {}", ev),
            })
        });
        let r = rj(r, &items);
        let (rb2, o) = obs_bounded(rb, canary);
        rb = rb2;
        out.ev(ev, a.clone(), r, o, h);
    }
}

fn bounded_exec(out: &mut Out, ex: &[Value], storages: &[&str]) {
    let reset = &ex[0];
    let cfg = &reset["cfg"];
    let data: Vec<i32> = ints(&cfg["data"]).into_iter().map(|x| x as i32).collect();
    let ctor = cfg["ctor"].as_str().unwrap_or("raw").to_string();
    let start = cfg["start"].as_u64().unwrap_or(0) as usize;
    let len = cfg["len"].as_u64().unwrap_or(0) as usize;
    let mut r2 = reset.clone();
    r2["cfg"]["ctor"] = json!(ctor.clone());
    let reset = &r2;
    let wanted: Vec<String> = match cfg["storage"].as_str() {
        Some(s) => vec![s.to_string()],
        None => storages.iter().map(|s| s.to_string()).collect(),
    };
    for st in wanted {
        let d = data.clone();
        let c = ctor.clone();
        macro_rules! mk {
            ($data:expr) => {
                move || match c.as_str() {
                    "raw" => Bounded::from_raw_parts(start, len, $data),
                    "from" => Bounded::from($data),
                    "from_full" => Bounded::from_full($data),
                    _ => panic!("ctor"),
                }
            };
        }
        match st.as_str() {
            "vec" => {
                if ctor == "from_iter" {
                    run_bounded(out, reset, &ex[1..], "vec", move || Bounded::<Vec<i32>>::from_iter(d), &|| true)
                } else {
                    run_bounded(out, reset, &ex[1..], "vec", mk!(d), &|| true)
                }
            }
            "boxed" => {
                if ctor == "from_iter" {
                    run_bounded(out, reset, &ex[1..], "boxed", move || Bounded::<Box<[i32]>>::from_iter(d), &|| true)
                } else {
                    run_bounded(out, reset, &ex[1..], "boxed", mk!(d.into_boxed_slice()), &|| true)
                }
            }
            "mutslice" if ctor != "from_iter" => {
                // the backing slice sits between guard words
                let mut padded: Vec<i32> = vec![CANARY; PAD];
                padded.extend(d.iter());
                padded.extend(std::iter::repeat(CANARY).take(PAD));
                let p = padded.as_mut_ptr();
                let n = d.len();
                let sl: &'static mut [i32] = unsafe { std::slice::from_raw_parts_mut(p.add(PAD), n) };
                let check = move || unsafe {
                    (0..PAD).all(|k| *p.add(k) == CANARY && *p.add(PAD + n + k) == CANARY)
                };
                run_bounded(out, reset, &ex[1..], "mutslice", mk!(sl), &check);
                drop(padded);
            }
            "array" if ctor != "from_iter" => {
                macro_rules! arr {
                    ($($n:literal),*) => { match d.len() {
                        $($n => { let mut a = [0i32; $n]; a.copy_from_slice(&d);
                                  run_bounded(out, reset, &ex[1..], "array", mk!(a), &|| true) })*
                        _ => {}
                    } };
                }
                arr!(1, 2, 3, 4, 5, 6, 7, 8);
            }
            _ => {}
        }
    }
}

// ---------------------------------------------------------------------------- Fixed

fn obs_fixed<S: SliceMut<Element = i32>>(rb: Fixed<S>, canary: &dyn Fn() -> bool) -> (Fixed<S>, Value) {
    let views = catch(|| {
        let n = rb.len();
        let iter: Vec<i32> = rb.iter().cloned().collect();
        let lp: Vec<i32> = rb.iter_loop().take(2 * n + 1).cloned().collect();
        let get: Vec<i32> = (0..2 * n).map(|i| *rb.get(i)).collect();
        let index: Vec<i32> = (0..2 * n).map(|i| rb[i]).collect();
        let (s1, s2) = rb.slices();
        json!({"ok": true, "len": n, "iter": iter, "loop": lp, "get": get, "idx": index, "s1": s1, "s2": s2})
    });
    let (first, data) = rb.into_raw_parts();
    let raw = json!({"first": first, "data": data.slice()});
    let rb = unsafe { Fixed::from_raw_parts_unchecked(first, data) };
    let mut o = views.unwrap_or_else(|| json!({"ok": false}));
    o["raw"] = raw;
    o["canary"] = json!(canary());
    (rb, o)
}

fn run_fixed<S: SliceMut<Element = i32> + std::fmt::Debug>(
    out: &mut Out,
    reset: &Value,
    ops: &[Value],
    storage: &str,
    build: impl FnOnce() -> Fixed<S>,
    canary: &dyn Fn() -> bool,
) where
    Fixed<S>: Dup,
{
    let mut cfg = reset["cfg"].clone();
    cfg["storage"] = json!(storage);
    let mut rb = match catch(build) {
        None => {
            out.line(&json!({"ev":"reset","comp":"fixed","cfg":cfg,"r":r_panic(),"o":{"ok":false}}));
            return;
        }
        Some(rb) => rb,
    };
    let (rb2, o) = obs_fixed(rb, canary);
    rb = rb2;
    out.line(&json!({"ev":"reset","comp":"fixed","cfg":cfg,"r":r_unit(),"o":o}));
    for op in ops {
        let ev = op["ev"].as_str().unwrap();
        let a = &op["a"];
        let mut items: Vec<i32> = Vec::with_capacity(rb.len() + 2);
        let wr = if a["vs"].is_array() { vs(a) } else { Vec::new() };
        let ix = if a["i"].is_i64() { idx(a) } else { 0 };
        let wv = a["v"].as_i64().unwrap_or(0) as i32;
        let kk = a["k"].as_u64().unwrap_or(0) as usize;
        let mm = a["m"].as_u64().unwrap_or(0) as usize;
        let _ = (ix, wv, kk, mm);
        let (r, h, _) = measured(|| {
            catch(|| match ev {
                "push" => R::Opt(Some(rb.push(wv))),
                "views" => R::Unit,
                "fmt" => {
                    use std::fmt::Write;
                    let mut sink = Sink { n: 0 };
                    write!(sink, "{:?}", rb).unwrap();
                    assert!(sink.n > 0);
                    R::Unit
                }
                "clone" => {
                    if let Some(c) = rb.dup() {
                        rb = c;
                    }
                    R::Unit
                }
                "get" => R::Opt(Some(*rb.get(ix))),
                "index" => R::Opt(Some(rb[ix])),
                "get_mut" => {
                    let r = rb.get_mut(ix);
                    let old = *r;
                    *r = wv;
                    R::Opt(Some(old))
                }
                "index_mut" => {
                    // one IndexMut call (reading through Index first would hide an IndexMut that accepts more)
                    let r = &mut rb[ix];
                    let old = *r;
                    *r = wv;
                    R::Opt(Some(old))
                }
                "set_first" => {
                    rb.set_first(ix);
                    R::Unit
                }
                "iter_mut" => {
                    for (r, w) in rb.iter_mut().zip(wr.iter()) {
                        items.push(*r);
                        *r = *w;
                    }
                    R::Items
                }
                "slices_mut" => {
                    let (s1, s2) = rb.slices_mut();
                    let mut k = 0;
                    for r in s1.iter_mut().chain(s2.iter_mut()) {
                        if k < wr.len() {
                            items.push(*r);
                            *r = wr[k];
                            k += 1;
                        }
                    }
                    R::Items
                }
                "extend" => {
                    rb.extend(wr.iter().cloned());
                    R::Unit
                }
                _ => panic!("unknown op {}", ev),
            })
        });
        let r = rj(r, &items);
        let (rb2, o) = obs_fixed(rb, canary);
        rb = rb2;
        out.ev(ev, a.clone(), r, o, h);
    }
}

fn fixed_exec(out: &mut Out, ex: &[Value], storages: &[&str]) {
    let reset = &ex[0];
    let cfg = &reset["cfg"];
    let data: Vec<i32> = ints(&cfg["data"]).into_iter().map(|x| x as i32).collect();
    let ctor = cfg["ctor"].as_str().unwrap_or("raw").to_string();
    let first = cfg["first"].as_u64().unwrap_or(0) as usize;
    let mut r2 = reset.clone();
    r2["cfg"]["ctor"] = json!(ctor.clone());
    let reset = &r2;
    let wanted: Vec<String> = match cfg["storage"].as_str() {
        Some(s) => vec![s.to_string()],
        None => storages.iter().map(|s| s.to_string()).collect(),
    };
    for st in wanted {
        let d = data.clone();
        let c = ctor.clone();
        macro_rules! mk {
            ($data:expr) => {
                move || match c.as_str() {
                    "raw" => Fixed::from_raw_parts(first, $data),
                    "from" => Fixed::from($data),
                    _ => panic!("ctor"),
                }
            };
        }
        match st.as_str() {
            "vec" => {
                if ctor == "from_iter" {
                    run_fixed(out, reset, &ex[1..], "vec", move || Fixed::<Vec<i32>>::from_iter(d), &|| true)
                } else {
                    run_fixed(out, reset, &ex[1..], "vec", mk!(d), &|| true)
                }
            }
            "boxed" => {
                if ctor == "from_iter" {
                    run_fixed(out, reset, &ex[1..], "boxed", move || Fixed::<Box<[i32]>>::from_iter(d), &|| true)
                } else {
                    run_fixed(out, reset, &ex[1..], "boxed", mk!(d.into_boxed_slice()), &|| true)
                }
            }
            "mutslice" if ctor != "from_iter" => {
                let mut padded: Vec<i32> = vec![CANARY; PAD];
                padded.extend(d.iter());
                padded.extend(std::iter::repeat(CANARY).take(PAD));
                let p = padded.as_mut_ptr();
                let n = d.len();
                let sl: &'static mut [i32] = unsafe { std::slice::from_raw_parts_mut(p.add(PAD), n) };
                let check = move || unsafe {
                    (0..PAD).all(|k| *p.add(k) == CANARY && *p.add(PAD + n + k) == CANARY)
                };
                run_fixed(out, reset, &ex[1..], "mutslice", mk!(sl), &check);
                drop(padded);
            }
            "array" if ctor != "from_iter" => {
                macro_rules! arr {
                    ($($n:literal),*) => { match d.len() {
                        $($n => { let mut a = [0i32; $n]; a.copy_from_slice(&d);
                                  run_fixed(out, reset, &ex[1..], "array", mk!(a), &|| true) })*
                        _ => {}
                    } };
                }
                arr!(1, 2, 3, 4, 5, 6, 7, 8);
            }
            _ => {}
        }
    }
}

// ---------------------------------------------------------------------------- random histories

fn gen(seed: u64, size: &str, path: &str) {
    let mut rng = Rng::new(seed);
    let (n_hist, max_ops) = if size == "thorough" { (1500, 400) } else { (150, 120) };
    let mut execs = Vec::new();
    let storages = ["vec", "boxed", "mutslice", "array"];
    let mut fresh = 1000i64; // every written value is distinct
    for h in 0..n_hist {
        let cap = match rng.below(10) {
            0..=5 => rng.range(1, 8),
            6..=8 => rng.range(9, 24),
            _ => rng.range(25, 64),
        } as usize;
        let storage = if cap <= 8 { *rng.pick(&storages) } else { *rng.pick(&storages[..3]) };
        let bounded = h % 2 == 0;
        let mut ex = Vec::new();
        let mut data: Vec<i64> = (0..cap).map(|_| { fresh += 1; fresh }).collect();
        if bounded {
            let ctor = *rng.pick(&["raw", "raw", "raw", "from", "from_full", "from_iter"]);
            let storage = if ctor == "from_iter" { *rng.pick(&["vec", "boxed"]) } else { storage };
            let start = rng.below(cap as u64) as usize;
            let len = rng.below(cap as u64 + 1) as usize;
            if ctor == "raw" {
                // dead slots hold the sentinel
                for k in 0..cap {
                    let live = (k + cap - start) % cap < len;
                    if !live { data[k] = -777; }
                }
            } else if ctor != "from_full" {
                for k in 0..cap { data[k] = -777; }
            }
            // occasionally an invalid constructor call (must panic)
            let (start, len) = if ctor == "raw" && rng.chance(1, 25) {
                if rng.chance(1, 2) { (cap, len) } else { (start, cap + 1) }
            } else { (start, len) };
            ex.push(json!({"ev":"reset","comp":"bounded","cfg":{"ctor":ctor,"data":data,"start":start,"len":len,"storage":storage}}));
            let n_ops = rng.range(5, max_ops) as usize;
            let mut approx_len = len.min(cap);
            for _ in 0..n_ops {
                let k = rng.below(100);
                let op = if rng.chance(1, 25) {
                    json!({"ev": if rng.chance(1, 2) {"clone"} else {"fmt"},"a":{"x":0}})
                } else if k < 35 {
                    fresh += 1; approx_len = (approx_len + 1).min(cap);
                    json!({"ev":"push","a":{"v":fresh}})
                } else if k < 55 {
                    approx_len = approx_len.saturating_sub(1);
                    json!({"ev":"pop","a":{"x":0}})
                } else if k < 62 {
                    json!({"ev":"get","a":{"i": if rng.chance(1, 20) { -1 } else { rng.below(cap as u64 + 2) as i64 }}})
                } else if k < 66 {
                    json!({"ev":"index","a":{"i": rng.below(cap as u64 + 2)}})
                } else if k < 72 {
                    fresh += 1;
                    json!({"ev":"get_mut","a":{"i": rng.below(cap as u64 + 1), "v": fresh}})
                } else if k < 76 {
                    fresh += 1;
                    json!({"ev":"index_mut","a":{"i": rng.below(cap as u64 + 1), "v": fresh}})
                } else if k < 80 {
                    let kk = rng.below(cap as u64 + 2) as usize;
                    approx_len = approx_len.saturating_sub(kk);
                    json!({"ev":"drain","a":{"k": kk}})
                } else if k < 84 {
                    match rng.below(4) {
                        0 => json!({"ev":"drain_nth","a":{"k": rng.below(cap as u64 + 2)}}),
                        1 => json!({"ev":"drain_step","a":{"k": rng.range(1, cap as i64 + 1), "m": rng.below(cap as u64 + 2)}}),
                        2 => json!({"ev":"drain_last","a":{"x":0}}),
                        _ => json!({"ev":"drain_count","a":{"x":0}}),
                    }
                } else if k < 92 {
                    // write through the mutable views: the driver does not know the exact length,
                    // so it offers `cap` fresh values; the spec takes the first `len` of them
                    let v: Vec<i64> = (0..cap).map(|_| { fresh += 1; fresh }).collect();
                    json!({"ev": if k < 88 {"iter_mut"} else {"slices_mut"}, "a":{"vs": v}})
                } else {
                    let n = rng.below(cap as u64 + 3) as usize;
                    let v: Vec<i64> = (0..n).map(|_| { fresh += 1; fresh }).collect();
                    approx_len = (approx_len + n).min(cap);
                    json!({"ev":"extend","a":{"vs": v}})
                };
                ex.push(op);
            }
        } else {
            let ctor = *rng.pick(&["raw", "raw", "from", "from_iter"]);
            let storage = if ctor == "from_iter" { *rng.pick(&["vec", "boxed"]) } else { storage };
            let first = if ctor == "raw" && rng.chance(1, 25) { cap } else { rng.below(cap as u64) as usize };
            ex.push(json!({"ev":"reset","comp":"fixed","cfg":{"ctor":ctor,"data":data,"first":first,"storage":storage}}));
            let n_ops = rng.range(5, max_ops) as usize;
            for _ in 0..n_ops {
                let k = rng.below(100);
                let ix = |rng: &mut Rng| -> i64 {
                    match rng.below(12) { 0 => -1, 1..=8 => rng.below(cap as u64) as i64, _ => rng.below(5 * cap as u64 + 7) as i64 }
                };
                let op = if rng.chance(1, 25) {
                    json!({"ev": if rng.chance(1, 2) {"clone"} else {"fmt"},"a":{"x":0}})
                } else if k < 45 {
                    fresh += 1;
                    json!({"ev":"push","a":{"v":fresh}})
                } else if k < 55 {
                    json!({"ev":"get","a":{"i": ix(&mut rng)}})
                } else if k < 60 {
                    json!({"ev":"index","a":{"i": ix(&mut rng)}})
                } else if k < 68 {
                    fresh += 1;
                    json!({"ev":"get_mut","a":{"i": ix(&mut rng), "v": fresh}})
                } else if k < 73 {
                    fresh += 1;
                    json!({"ev":"index_mut","a":{"i": ix(&mut rng), "v": fresh}})
                } else if k < 83 {
                    json!({"ev":"set_first","a":{"i": ix(&mut rng)}})
                } else if k < 91 {
                    let v: Vec<i64> = (0..cap).map(|_| { fresh += 1; fresh }).collect();
                    json!({"ev": if k < 87 {"iter_mut"} else {"slices_mut"}, "a":{"vs": v}})
                } else {
                    let n = rng.below(2 * cap as u64 + 2) as usize;
                    let v: Vec<i64> = (0..n).map(|_| { fresh += 1; fresh }).collect();
                    json!({"ev":"extend","a":{"vs": v}})
                };
                ex.push(op);
            }
        }
        execs.push(ex);
    }
    write_stimuli(path, &execs);
}

fn main() {
    let c = cli();
    silence_panics();
    match c.mode.as_str() {
        "gen" => gen(c.a1.parse().unwrap(), &c.a2, &c.a3),
        "run" => {
            let storages = ["vec", "boxed", "mutslice", "array"];
            let n = drive(&c.a1, &c.a2, |out, ex| match ex[0]["comp"].as_str().unwrap() {
                "bounded" => bounded_exec(out, ex, &storages),
                "fixed" => fixed_exec(out, ex, &storages),
                c => panic!("unknown component {}", c),
            });
            eprintln!("hx_ring: {} events", n);
        }
        _ => {
            eprintln!("usage: hx_ring run <stimuli> <trace> | gen <seed> <quick|thorough> <stimuli>");
            std::process::exit(2);
        }
    }
}
