//! Driver + logger for dasp_sample: sample-format conversions (C01, C02) and the custom-width
//! integer types I11..U48 (C15).  `run` executes stimuli (TLC's MC_Sample boundary cases or the
//! seeded ones written by `gen`) on the real code and logs every call at its return;
//! spec/Trace_Sample.tla judges the log.  No expected values, no assertions about dasp's results.
//!
//! Events (all stateless; an execution is just a `reset` header followed by a group of events):
//!   conv     a{src,dst,v}            r val [to_sample, from_sample, conv::<src>::to_<dst>, FromSample::from_sample_, ToSample::to_sample_]
//!                                    o.nw = <dst type>::new(result.inner()) as some/none for I24/U24/I48/U48 targets, {"k":"na"} otherwise
//!   via      a{src,to,v}             r val to_signed_sample | to_float_sample result, o.d = format of the Rust result type, o.nw
//!   amp      a{src,op,v,g}           r val add_amp(v, g) | mul_amp(v, g)   (g in src's Signed resp. Float format, logged as o.g)
//!   sconst   a{fmt}                  r val {eq: Sample::EQUILIBRIUM, id: Sample::IDENTITY, idf: its format, lim: [types::<fmt>::MIN, MAX] (custom types) | []}
//!   eqconv   a{src,dst}              r val {se: src EQUILIBRIUM, de: dst EQUILIBRIUM, c: [src EQUILIBRIUM converted by the five routes]}, o.nw
//!   conv2    a{src,mid,dst,v,route}  r val {mid, fin}                                       (two steps by one route)
//!   ty_const a{ty}                   r val [MIN, MAX, EQUILIBRIUM]
//!   ty_new   a{ty,v}                 r some inner | none
//!   ty_from  a{ty,v}                 r val inner                       (From<backing integer>)
//!   ty_widen a{ty,from,v}            r val inner                       (From<narrower type>)
//!   ty_cmp   a{ty,a,b}               r val [lt,le,gt,ge,eq,ne,cmp+1,partial_cmp+1]
//!   ty_op    a{ty,op,a,b}            r val inner | panic               (add sub mul neg)
//!   ty_ops   a{ty,op,a,lo,n}         r val [inner or 99999 = panic, for b = lo..lo+n-1]  (11-bit types, compact)
//! Every event carries o.debug = cfg!(debug_assertions) of this build (so does the reset header).
//! Integers travel as {"n","l"} limbs, floats as IEEE fields (hx_common::big / f32f / f64f).
use dasp_sample::conv;
use dasp_sample::types::{I11, I20, I24, I48, U11, U20, U24, U48};
use dasp_sample::{FromSample, Sample, ToSample};
use hx_common::*;
use serde_json::{json, Value};

#[global_allocator]
static A: CountingAlloc = CountingAlloc;

const DEBUG: bool = cfg!(debug_assertions);
const PANIC_SENTINEL: i64 = 99_999;

// ---------------------------------------------------------------------------- sample values

#[derive(Clone, Copy, Debug)]
enum Val {
    I(i128),
    F32(f32),
    F64(f64),
}
fn enc(v: Val) -> Value {
    match v {
        Val::I(x) => big(x),
        Val::F32(x) => f32f(x),
        Val::F64(x) => f64f(x),
    }
}
fn dec(fmt: &str, j: &Value) -> Val {
    match fmt {
        "f32" => Val::F32(unf32(j)),
        "f64" => Val::F64(unf64(j)),
        _ => Val::I(unbig(j)),
    }
}
trait Fmt: Copy {
    const NAME: &'static str;
    fn from_val(v: Val) -> Self;
    fn to_val(self) -> Val;
    /// the type's own checked constructor applied to the value's inner integer (custom-width types only)
    fn renew(self) -> Option<Option<Val>> {
        None
    }
}
macro_rules! fmt_prim { ($($T:ident),*) => {$(
    impl Fmt for $T {
        const NAME: &'static str = stringify!($T);
        fn from_val(v: Val) -> Self { match v { Val::I(x) => x as $T, _ => panic!("harness: integer expected") } }
        fn to_val(self) -> Val { Val::I(self as i128) }
    }
)*} }
fmt_prim!(i8, i16, i32, i64, u8, u16, u32, u64);
macro_rules! fmt_custom { ($($T:ident : $R:ty : $n:expr),*) => {$(
    impl Fmt for $T {
        const NAME: &'static str = $n;
        fn renew(self) -> Option<Option<Val>> { Some(<$T>::new(self.inner()).map(|y| Val::I(y.inner() as i128))) }
        fn from_val(v: Val) -> Self { match v { Val::I(x) => <$T>::new_unchecked(x as $R), _ => panic!("harness: integer expected") } }
        fn to_val(self) -> Val { Val::I(self.inner() as i128) }
    }
)*} }
fmt_custom!(I24: i32: "i24", U24: i32: "u24", I48: i64: "i48", U48: i64: "u48");
impl Fmt for f32 {
    const NAME: &'static str = "f32";
    fn from_val(v: Val) -> Self {
        match v {
            Val::F32(x) => x,
            _ => panic!("harness: f32 expected"),
        }
    }
    fn to_val(self) -> Val {
        Val::F32(self)
    }
}
impl Fmt for f64 {
    const NAME: &'static str = "f64";
    fn from_val(v: Val) -> Self {
        match v {
            Val::F64(x) => x,
            _ => panic!("harness: f64 expected"),
        }
    }
    fn to_val(self) -> Val {
        Val::F64(self)
    }
}

/// One conversion through one of the five API routes; `None` = the code under test panicked.
macro_rules! pair {
    ($S:ty, $D:ty, $f:path, $v:expr, $route:expr) => {{
        let x: $S = <$S as Fmt>::from_val($v);
        let r: Option<$D> = catch(|| match $route {
            0 => Sample::to_sample::<$D>(x),
            1 => <$D as Sample>::from_sample(x),
            2 => $f(x),
            3 => <$D as FromSample<$S>>::from_sample_(x),
            _ => <$S as ToSample<$D>>::to_sample_(x),
        });
        r.map(|y| y.to_val())
    }};
}
fn conv_dyn(src: &str, dst: &str, v: Val, route: u8) -> Option<Val> {
    match (src, dst) {
        ("i8", "i16") => pair!(i8, i16, conv::i8::to_i16, v, route),
        ("i8", "i24") => pair!(i8, I24, conv::i8::to_i24, v, route),
        ("i8", "i32") => pair!(i8, i32, conv::i8::to_i32, v, route),
        ("i8", "i48") => pair!(i8, I48, conv::i8::to_i48, v, route),
        ("i8", "i64") => pair!(i8, i64, conv::i8::to_i64, v, route),
        ("i8", "u8") => pair!(i8, u8, conv::i8::to_u8, v, route),
        ("i8", "u16") => pair!(i8, u16, conv::i8::to_u16, v, route),
        ("i8", "u24") => pair!(i8, U24, conv::i8::to_u24, v, route),
        ("i8", "u32") => pair!(i8, u32, conv::i8::to_u32, v, route),
        ("i8", "u48") => pair!(i8, U48, conv::i8::to_u48, v, route),
        ("i8", "u64") => pair!(i8, u64, conv::i8::to_u64, v, route),
        ("i8", "f32") => pair!(i8, f32, conv::i8::to_f32, v, route),
        ("i8", "f64") => pair!(i8, f64, conv::i8::to_f64, v, route),
        ("i16", "i8") => pair!(i16, i8, conv::i16::to_i8, v, route),
        ("i16", "i24") => pair!(i16, I24, conv::i16::to_i24, v, route),
        ("i16", "i32") => pair!(i16, i32, conv::i16::to_i32, v, route),
        ("i16", "i48") => pair!(i16, I48, conv::i16::to_i48, v, route),
        ("i16", "i64") => pair!(i16, i64, conv::i16::to_i64, v, route),
        ("i16", "u8") => pair!(i16, u8, conv::i16::to_u8, v, route),
        ("i16", "u16") => pair!(i16, u16, conv::i16::to_u16, v, route),
        ("i16", "u24") => pair!(i16, U24, conv::i16::to_u24, v, route),
        ("i16", "u32") => pair!(i16, u32, conv::i16::to_u32, v, route),
        ("i16", "u48") => pair!(i16, U48, conv::i16::to_u48, v, route),
        ("i16", "u64") => pair!(i16, u64, conv::i16::to_u64, v, route),
        ("i16", "f32") => pair!(i16, f32, conv::i16::to_f32, v, route),
        ("i16", "f64") => pair!(i16, f64, conv::i16::to_f64, v, route),
        ("i24", "i8") => pair!(I24, i8, conv::i24::to_i8, v, route),
        ("i24", "i16") => pair!(I24, i16, conv::i24::to_i16, v, route),
        ("i24", "i32") => pair!(I24, i32, conv::i24::to_i32, v, route),
        ("i24", "i48") => pair!(I24, I48, conv::i24::to_i48, v, route),
        ("i24", "i64") => pair!(I24, i64, conv::i24::to_i64, v, route),
        ("i24", "u8") => pair!(I24, u8, conv::i24::to_u8, v, route),
        ("i24", "u16") => pair!(I24, u16, conv::i24::to_u16, v, route),
        ("i24", "u24") => pair!(I24, U24, conv::i24::to_u24, v, route),
        ("i24", "u32") => pair!(I24, u32, conv::i24::to_u32, v, route),
        ("i24", "u48") => pair!(I24, U48, conv::i24::to_u48, v, route),
        ("i24", "u64") => pair!(I24, u64, conv::i24::to_u64, v, route),
        ("i24", "f32") => pair!(I24, f32, conv::i24::to_f32, v, route),
        ("i24", "f64") => pair!(I24, f64, conv::i24::to_f64, v, route),
        ("i32", "i8") => pair!(i32, i8, conv::i32::to_i8, v, route),
        ("i32", "i16") => pair!(i32, i16, conv::i32::to_i16, v, route),
        ("i32", "i24") => pair!(i32, I24, conv::i32::to_i24, v, route),
        ("i32", "i48") => pair!(i32, I48, conv::i32::to_i48, v, route),
        ("i32", "i64") => pair!(i32, i64, conv::i32::to_i64, v, route),
        ("i32", "u8") => pair!(i32, u8, conv::i32::to_u8, v, route),
        ("i32", "u16") => pair!(i32, u16, conv::i32::to_u16, v, route),
        ("i32", "u24") => pair!(i32, U24, conv::i32::to_u24, v, route),
        ("i32", "u32") => pair!(i32, u32, conv::i32::to_u32, v, route),
        ("i32", "u48") => pair!(i32, U48, conv::i32::to_u48, v, route),
        ("i32", "u64") => pair!(i32, u64, conv::i32::to_u64, v, route),
        ("i32", "f32") => pair!(i32, f32, conv::i32::to_f32, v, route),
        ("i32", "f64") => pair!(i32, f64, conv::i32::to_f64, v, route),
        ("i48", "i8") => pair!(I48, i8, conv::i48::to_i8, v, route),
        ("i48", "i16") => pair!(I48, i16, conv::i48::to_i16, v, route),
        ("i48", "i24") => pair!(I48, I24, conv::i48::to_i24, v, route),
        ("i48", "i32") => pair!(I48, i32, conv::i48::to_i32, v, route),
        ("i48", "i64") => pair!(I48, i64, conv::i48::to_i64, v, route),
        ("i48", "u8") => pair!(I48, u8, conv::i48::to_u8, v, route),
        ("i48", "u16") => pair!(I48, u16, conv::i48::to_u16, v, route),
        ("i48", "u24") => pair!(I48, U24, conv::i48::to_u24, v, route),
        ("i48", "u32") => pair!(I48, u32, conv::i48::to_u32, v, route),
        ("i48", "u48") => pair!(I48, U48, conv::i48::to_u48, v, route),
        ("i48", "u64") => pair!(I48, u64, conv::i48::to_u64, v, route),
        ("i48", "f32") => pair!(I48, f32, conv::i48::to_f32, v, route),
        ("i48", "f64") => pair!(I48, f64, conv::i48::to_f64, v, route),
        ("i64", "i8") => pair!(i64, i8, conv::i64::to_i8, v, route),
        ("i64", "i16") => pair!(i64, i16, conv::i64::to_i16, v, route),
        ("i64", "i24") => pair!(i64, I24, conv::i64::to_i24, v, route),
        ("i64", "i32") => pair!(i64, i32, conv::i64::to_i32, v, route),
        ("i64", "i48") => pair!(i64, I48, conv::i64::to_i48, v, route),
        ("i64", "u8") => pair!(i64, u8, conv::i64::to_u8, v, route),
        ("i64", "u16") => pair!(i64, u16, conv::i64::to_u16, v, route),
        ("i64", "u24") => pair!(i64, U24, conv::i64::to_u24, v, route),
        ("i64", "u32") => pair!(i64, u32, conv::i64::to_u32, v, route),
        ("i64", "u48") => pair!(i64, U48, conv::i64::to_u48, v, route),
        ("i64", "u64") => pair!(i64, u64, conv::i64::to_u64, v, route),
        ("i64", "f32") => pair!(i64, f32, conv::i64::to_f32, v, route),
        ("i64", "f64") => pair!(i64, f64, conv::i64::to_f64, v, route),
        ("u8", "i8") => pair!(u8, i8, conv::u8::to_i8, v, route),
        ("u8", "i16") => pair!(u8, i16, conv::u8::to_i16, v, route),
        ("u8", "i24") => pair!(u8, I24, conv::u8::to_i24, v, route),
        ("u8", "i32") => pair!(u8, i32, conv::u8::to_i32, v, route),
        ("u8", "i48") => pair!(u8, I48, conv::u8::to_i48, v, route),
        ("u8", "i64") => pair!(u8, i64, conv::u8::to_i64, v, route),
        ("u8", "u16") => pair!(u8, u16, conv::u8::to_u16, v, route),
        ("u8", "u24") => pair!(u8, U24, conv::u8::to_u24, v, route),
        ("u8", "u32") => pair!(u8, u32, conv::u8::to_u32, v, route),
        ("u8", "u48") => pair!(u8, U48, conv::u8::to_u48, v, route),
        ("u8", "u64") => pair!(u8, u64, conv::u8::to_u64, v, route),
        ("u8", "f32") => pair!(u8, f32, conv::u8::to_f32, v, route),
        ("u8", "f64") => pair!(u8, f64, conv::u8::to_f64, v, route),
        ("u16", "i8") => pair!(u16, i8, conv::u16::to_i8, v, route),
        ("u16", "i16") => pair!(u16, i16, conv::u16::to_i16, v, route),
        ("u16", "i24") => pair!(u16, I24, conv::u16::to_i24, v, route),
        ("u16", "i32") => pair!(u16, i32, conv::u16::to_i32, v, route),
        ("u16", "i48") => pair!(u16, I48, conv::u16::to_i48, v, route),
        ("u16", "i64") => pair!(u16, i64, conv::u16::to_i64, v, route),
        ("u16", "u8") => pair!(u16, u8, conv::u16::to_u8, v, route),
        ("u16", "u24") => pair!(u16, U24, conv::u16::to_u24, v, route),
        ("u16", "u32") => pair!(u16, u32, conv::u16::to_u32, v, route),
        ("u16", "u48") => pair!(u16, U48, conv::u16::to_u48, v, route),
        ("u16", "u64") => pair!(u16, u64, conv::u16::to_u64, v, route),
        ("u16", "f32") => pair!(u16, f32, conv::u16::to_f32, v, route),
        ("u16", "f64") => pair!(u16, f64, conv::u16::to_f64, v, route),
        ("u24", "i8") => pair!(U24, i8, conv::u24::to_i8, v, route),
        ("u24", "i16") => pair!(U24, i16, conv::u24::to_i16, v, route),
        ("u24", "i24") => pair!(U24, I24, conv::u24::to_i24, v, route),
        ("u24", "i32") => pair!(U24, i32, conv::u24::to_i32, v, route),
        ("u24", "i48") => pair!(U24, I48, conv::u24::to_i48, v, route),
        ("u24", "i64") => pair!(U24, i64, conv::u24::to_i64, v, route),
        ("u24", "u8") => pair!(U24, u8, conv::u24::to_u8, v, route),
        ("u24", "u16") => pair!(U24, u16, conv::u24::to_u16, v, route),
        ("u24", "u32") => pair!(U24, u32, conv::u24::to_u32, v, route),
        ("u24", "u48") => pair!(U24, U48, conv::u24::to_u48, v, route),
        ("u24", "u64") => pair!(U24, u64, conv::u24::to_u64, v, route),
        ("u24", "f32") => pair!(U24, f32, conv::u24::to_f32, v, route),
        ("u24", "f64") => pair!(U24, f64, conv::u24::to_f64, v, route),
        ("u32", "i8") => pair!(u32, i8, conv::u32::to_i8, v, route),
        ("u32", "i16") => pair!(u32, i16, conv::u32::to_i16, v, route),
        ("u32", "i24") => pair!(u32, I24, conv::u32::to_i24, v, route),
        ("u32", "i32") => pair!(u32, i32, conv::u32::to_i32, v, route),
        ("u32", "i48") => pair!(u32, I48, conv::u32::to_i48, v, route),
        ("u32", "i64") => pair!(u32, i64, conv::u32::to_i64, v, route),
        ("u32", "u8") => pair!(u32, u8, conv::u32::to_u8, v, route),
        ("u32", "u16") => pair!(u32, u16, conv::u32::to_u16, v, route),
        ("u32", "u24") => pair!(u32, U24, conv::u32::to_u24, v, route),
        ("u32", "u48") => pair!(u32, U48, conv::u32::to_u48, v, route),
        ("u32", "u64") => pair!(u32, u64, conv::u32::to_u64, v, route),
        ("u32", "f32") => pair!(u32, f32, conv::u32::to_f32, v, route),
        ("u32", "f64") => pair!(u32, f64, conv::u32::to_f64, v, route),
        ("u48", "i8") => pair!(U48, i8, conv::u48::to_i8, v, route),
        ("u48", "i16") => pair!(U48, i16, conv::u48::to_i16, v, route),
        ("u48", "i24") => pair!(U48, I24, conv::u48::to_i24, v, route),
        ("u48", "i32") => pair!(U48, i32, conv::u48::to_i32, v, route),
        ("u48", "i48") => pair!(U48, I48, conv::u48::to_i48, v, route),
        ("u48", "i64") => pair!(U48, i64, conv::u48::to_i64, v, route),
        ("u48", "u8") => pair!(U48, u8, conv::u48::to_u8, v, route),
        ("u48", "u16") => pair!(U48, u16, conv::u48::to_u16, v, route),
        ("u48", "u24") => pair!(U48, U24, conv::u48::to_u24, v, route),
        ("u48", "u32") => pair!(U48, u32, conv::u48::to_u32, v, route),
        ("u48", "u64") => pair!(U48, u64, conv::u48::to_u64, v, route),
        ("u48", "f32") => pair!(U48, f32, conv::u48::to_f32, v, route),
        ("u48", "f64") => pair!(U48, f64, conv::u48::to_f64, v, route),
        ("u64", "i8") => pair!(u64, i8, conv::u64::to_i8, v, route),
        ("u64", "i16") => pair!(u64, i16, conv::u64::to_i16, v, route),
        ("u64", "i24") => pair!(u64, I24, conv::u64::to_i24, v, route),
        ("u64", "i32") => pair!(u64, i32, conv::u64::to_i32, v, route),
        ("u64", "i48") => pair!(u64, I48, conv::u64::to_i48, v, route),
        ("u64", "i64") => pair!(u64, i64, conv::u64::to_i64, v, route),
        ("u64", "u8") => pair!(u64, u8, conv::u64::to_u8, v, route),
        ("u64", "u16") => pair!(u64, u16, conv::u64::to_u16, v, route),
        ("u64", "u24") => pair!(u64, U24, conv::u64::to_u24, v, route),
        ("u64", "u32") => pair!(u64, u32, conv::u64::to_u32, v, route),
        ("u64", "u48") => pair!(u64, U48, conv::u64::to_u48, v, route),
        ("u64", "f32") => pair!(u64, f32, conv::u64::to_f32, v, route),
        ("u64", "f64") => pair!(u64, f64, conv::u64::to_f64, v, route),
        ("f32", "i8") => pair!(f32, i8, conv::f32::to_i8, v, route),
        ("f32", "i16") => pair!(f32, i16, conv::f32::to_i16, v, route),
        ("f32", "i24") => pair!(f32, I24, conv::f32::to_i24, v, route),
        ("f32", "i32") => pair!(f32, i32, conv::f32::to_i32, v, route),
        ("f32", "i48") => pair!(f32, I48, conv::f32::to_i48, v, route),
        ("f32", "i64") => pair!(f32, i64, conv::f32::to_i64, v, route),
        ("f32", "u8") => pair!(f32, u8, conv::f32::to_u8, v, route),
        ("f32", "u16") => pair!(f32, u16, conv::f32::to_u16, v, route),
        ("f32", "u24") => pair!(f32, U24, conv::f32::to_u24, v, route),
        ("f32", "u32") => pair!(f32, u32, conv::f32::to_u32, v, route),
        ("f32", "u48") => pair!(f32, U48, conv::f32::to_u48, v, route),
        ("f32", "u64") => pair!(f32, u64, conv::f32::to_u64, v, route),
        ("f32", "f64") => pair!(f32, f64, conv::f32::to_f64, v, route),
        ("f64", "i8") => pair!(f64, i8, conv::f64::to_i8, v, route),
        ("f64", "i16") => pair!(f64, i16, conv::f64::to_i16, v, route),
        ("f64", "i24") => pair!(f64, I24, conv::f64::to_i24, v, route),
        ("f64", "i32") => pair!(f64, i32, conv::f64::to_i32, v, route),
        ("f64", "i48") => pair!(f64, I48, conv::f64::to_i48, v, route),
        ("f64", "i64") => pair!(f64, i64, conv::f64::to_i64, v, route),
        ("f64", "u8") => pair!(f64, u8, conv::f64::to_u8, v, route),
        ("f64", "u16") => pair!(f64, u16, conv::f64::to_u16, v, route),
        ("f64", "u24") => pair!(f64, U24, conv::f64::to_u24, v, route),
        ("f64", "u32") => pair!(f64, u32, conv::f64::to_u32, v, route),
        ("f64", "u48") => pair!(f64, U48, conv::f64::to_u48, v, route),
        ("f64", "u64") => pair!(f64, u64, conv::f64::to_u64, v, route),
        ("f64", "f32") => pair!(f64, f32, conv::f64::to_f32, v, route),
        _ => panic!("harness: unknown conversion {} -> {}", src, dst),
    }
}

// ---------------------------------------------------------------------------- further entry points of `Sample`

macro_rules! with_fmt {
    ($name:expr, $T:ident => $body:expr) => {
        match $name {
            "i8" => { type $T = i8; $body }
            "i16" => { type $T = i16; $body }
            "i24" => { type $T = I24; $body }
            "i32" => { type $T = i32; $body }
            "i48" => { type $T = I48; $body }
            "i64" => { type $T = i64; $body }
            "u8" => { type $T = u8; $body }
            "u16" => { type $T = u16; $body }
            "u24" => { type $T = U24; $body }
            "u32" => { type $T = u32; $body }
            "u48" => { type $T = U48; $body }
            "u64" => { type $T = u64; $body }
            "f32" => { type $T = f32; $body }
            "f64" => { type $T = f64; $body }
            other => panic!("harness: unknown format {}", other),
        }
    };
}

/// the checked constructor of the format `fmt` applied to a value of that format (as the harness holds it)
fn renew_dyn(fmt: &str, v: Val) -> Value {
    let r = with_fmt!(fmt, T => catch(|| <T as Fmt>::from_val(v).renew()));
    match r {
        None => r_panic(),
        Some(None) => json!({"k": "na"}),
        Some(Some(x)) => r_opt(x.map(enc)),
    }
}
fn nw_of(fmt: &str, r: Option<Val>) -> Value {
    match r {
        Some(v) => renew_dyn(fmt, v),
        None => json!({"k": "na"}),
    }
}

fn to_signed_g<S: Sample + Fmt>(v: Val) -> (Option<Val>, &'static str)
where
    S::Signed: Fmt,
{
    let x = S::from_val(v);
    (catch(|| x.to_signed_sample()).map(|y| y.to_val()), <S::Signed as Fmt>::NAME)
}
fn to_float_g<S: Sample + Fmt>(v: Val) -> (Option<Val>, &'static str)
where
    S::Float: Fmt,
{
    let x = S::from_val(v);
    (catch(|| x.to_float_sample()).map(|y| y.to_val()), <S::Float as Fmt>::NAME)
}
/// `to_signed_sample` / `to_float_sample`: result and the format of the Rust result type
fn via_dyn(src: &str, to: &str, v: Val) -> (Option<Val>, &'static str) {
    match to {
        "signed" => with_fmt!(src, T => to_signed_g::<T>(v)),
        "float" => with_fmt!(src, T => to_float_g::<T>(v)),
        other => panic!("harness: unknown via {}", other),
    }
}
fn add_amp_g<S: Sample + Fmt>(v: Val, g: Val) -> Option<Val>
where
    S::Signed: Fmt,
{
    let (x, a) = (S::from_val(v), <S::Signed as Fmt>::from_val(g));
    catch(|| x.add_amp(a)).map(|y| y.to_val())
}
fn mul_amp_g<S: Sample + Fmt>(v: Val, g: Val) -> Option<Val>
where
    S::Float: Fmt,
{
    let (x, a) = (S::from_val(v), <S::Float as Fmt>::from_val(g));
    catch(|| x.mul_amp(a)).map(|y| y.to_val())
}
fn signed_name<S: Sample>() -> &'static str
where
    S::Signed: Fmt,
{
    <S::Signed as Fmt>::NAME
}
fn float_name<S: Sample>() -> &'static str
where
    S::Float: Fmt,
{
    <S::Float as Fmt>::NAME
}
/// format of the gain argument of add_amp / mul_amp on `src`
fn gain_fmt(src: &str, op: &str) -> &'static str {
    match op {
        "add" => with_fmt!(src, T => signed_name::<T>()),
        "mul" => with_fmt!(src, T => float_name::<T>()),
        other => panic!("harness: unknown amp op {}", other),
    }
}
fn amp_dyn(src: &str, op: &str, v: Val, g: Val) -> Option<Val> {
    match op {
        "add" => with_fmt!(src, T => add_amp_g::<T>(v, g)),
        _ => with_fmt!(src, T => mul_amp_g::<T>(v, g)),
    }
}
fn ident_g<S: Sample>() -> (Val, &'static str)
where
    S::Float: Fmt,
{
    (<S as Sample>::IDENTITY.to_val(), <S::Float as Fmt>::NAME)
}
/// the associated constants of `Sample`: EQUILIBRIUM, IDENTITY (with the format of its type)
fn sconst_dyn(fmt: &str) -> (Val, Val, &'static str) {
    with_fmt!(fmt, T => {
        let (id, idf) = ident_g::<T>();
        (<T as Sample>::EQUILIBRIUM.to_val(), id, idf)
    })
}
/// the published extremes of the custom-width formats (dasp_sample::types::<fmt>::{MIN, MAX})
fn limits_dyn(fmt: &str) -> Vec<i128> {
    use dasp_sample::types::{i24, i48, u24, u48};
    match fmt {
        "i24" => vec![i24::MIN.inner() as i128, i24::MAX.inner() as i128],
        "u24" => vec![u24::MIN.inner() as i128, u24::MAX.inner() as i128],
        "i48" => vec![i48::MIN.inner() as i128, i48::MAX.inner() as i128],
        "u48" => vec![u48::MIN.inner() as i128, u48::MAX.inner() as i128],
        _ => vec![],
    }
}
const ROUTES: u8 = 5;
fn routes_ret(rs: &[Option<Val>]) -> Value {
    if rs.iter().all(|x| x.is_some()) {
        r_val(Value::Array(rs.iter().map(|x| enc(x.unwrap())).collect()))
    } else {
        r_panic()
    }
}

// ---------------------------------------------------------------------------- custom types

trait Cust: Copy + Ord + PartialOrd {
    fn minc() -> i128;
    fn maxc() -> i128;
    fn eqc() -> i128;
    fn mk(v: i128) -> Self; // unchecked constructor (operands of the stimuli are in range)
    fn new_(v: i128) -> Option<Self>;
    fn from_rep(v: i128) -> Self;
    fn inner_(self) -> i128;
    fn add_(self, o: Self) -> Self;
    fn sub_(self, o: Self) -> Self;
    fn mul_(self, o: Self) -> Self;
}
macro_rules! cust { ($($T:ident : $R:ty, $m:ident);*) => {$(
    impl Cust for $T {
        fn minc() -> i128 { dasp_sample::types::$m::MIN.inner() as i128 }
        fn maxc() -> i128 { dasp_sample::types::$m::MAX.inner() as i128 }
        fn eqc() -> i128 { dasp_sample::types::$m::EQUILIBRIUM.inner() as i128 }
        fn mk(v: i128) -> Self { <$T>::new_unchecked(v as $R) }
        fn new_(v: i128) -> Option<Self> { <$T>::new(v as $R) }
        fn from_rep(v: i128) -> Self { <$T as From<$R>>::from(v as $R) }
        fn inner_(self) -> i128 { self.inner() as i128 }
        fn add_(self, o: Self) -> Self { self + o }
        fn sub_(self, o: Self) -> Self { self - o }
        fn mul_(self, o: Self) -> Self { self * o }
    }
)*} }
cust!(I11: i16, i11; I20: i32, i20; I24: i32, i24; I48: i64, i48; U11: i16, u11; U20: i32, u20; U24: i32, u24; U48: i64, u48);

macro_rules! with_ty {
    ($name:expr, $T:ident => $body:expr) => {
        match $name {
            "I11" => { type $T = I11; $body }
            "I20" => { type $T = I20; $body }
            "I24" => { type $T = I24; $body }
            "I48" => { type $T = I48; $body }
            "U11" => { type $T = U11; $body }
            "U20" => { type $T = U20; $body }
            "U24" => { type $T = U24; $body }
            "U48" => { type $T = U48; $body }
            other => panic!("harness: unknown type {}", other),
        }
    };
}

/// Negation exists for I11, I24, I48 and U11 only (types.rs `impl_neg!`).
fn neg_dyn(ty: &str, a: i128) -> Option<i128> {
    match ty {
        "I11" => catch(|| (-I11::mk(a)).inner_()),
        "I24" => catch(|| (-I24::mk(a)).inner_()),
        "I48" => catch(|| (-I48::mk(a)).inner_()),
        "U11" => catch(|| (-U11::mk(a)).inner_()),
        other => panic!("harness: {} has no Neg", other),
    }
}
fn op_dyn(ty: &str, op: &str, a: i128, b: i128) -> Option<i128> {
    if op == "neg" {
        return neg_dyn(ty, a);
    }
    with_ty!(ty, T => {
        let (x, y) = (T::mk(a), T::mk(b));
        match op {
            "add" => catch(|| x.add_(y).inner_()),
            "sub" => catch(|| x.sub_(y).inner_()),
            "mul" => catch(|| x.mul_(y).inner_()),
            other => panic!("harness: unknown op {}", other),
        }
    })
}

/// The widening `From` impls, exactly the `from:` lists of types.rs.
const WIDEN: [(&str, &[&str]); 8] = [
    ("I11", &["i8", "u8"]),
    ("I20", &["i8", "I11", "i16", "u8", "U11", "u16"]),
    ("I24", &["i8", "i16", "I20", "u8", "u16", "U20"]),
    ("I48", &["i8", "i16", "I20", "I24", "i32", "u8", "u16", "U20", "U24", "u32"]),
    ("U11", &["u8"]),
    ("U20", &["u8", "u16"]),
    ("U24", &["u8", "u16", "U20"]),
    ("U48", &["u8", "u16", "U20", "U24", "u32"]),
];
macro_rules! wp { ($T:ty, $U:ty, $v:expr) => { catch(|| <$T as From<$U>>::from($v as $U).inner_()) } }
macro_rules! wc { ($T:ty, $U:ty, $v:expr) => { catch(|| <$T as From<$U>>::from(<$U>::mk($v)).inner_()) } }
fn widen_dyn(ty: &str, from: &str, v: i128) -> Option<i128> {
    match (ty, from) {
        ("I11", "i8") => wp!(I11, i8, v),
        ("I11", "u8") => wp!(I11, u8, v),
        ("I20", "i8") => wp!(I20, i8, v),
        ("I20", "I11") => wc!(I20, I11, v),
        ("I20", "i16") => wp!(I20, i16, v),
        ("I20", "u8") => wp!(I20, u8, v),
        ("I20", "U11") => wc!(I20, U11, v),
        ("I20", "u16") => wp!(I20, u16, v),
        ("I24", "i8") => wp!(I24, i8, v),
        ("I24", "i16") => wp!(I24, i16, v),
        ("I24", "I20") => wc!(I24, I20, v),
        ("I24", "u8") => wp!(I24, u8, v),
        ("I24", "u16") => wp!(I24, u16, v),
        ("I24", "U20") => wc!(I24, U20, v),
        ("I48", "i8") => wp!(I48, i8, v),
        ("I48", "i16") => wp!(I48, i16, v),
        ("I48", "I20") => wc!(I48, I20, v),
        ("I48", "I24") => wc!(I48, I24, v),
        ("I48", "i32") => wp!(I48, i32, v),
        ("I48", "u8") => wp!(I48, u8, v),
        ("I48", "u16") => wp!(I48, u16, v),
        ("I48", "U20") => wc!(I48, U20, v),
        ("I48", "U24") => wc!(I48, U24, v),
        ("I48", "u32") => wp!(I48, u32, v),
        ("U11", "u8") => wp!(U11, u8, v),
        ("U20", "u8") => wp!(U20, u8, v),
        ("U20", "u16") => wp!(U20, u16, v),
        ("U24", "u8") => wp!(U24, u8, v),
        ("U24", "u16") => wp!(U24, u16, v),
        ("U24", "U20") => wc!(U24, U20, v),
        ("U48", "u8") => wp!(U48, u8, v),
        ("U48", "u16") => wp!(U48, u16, v),
        ("U48", "U20") => wc!(U48, U20, v),
        ("U48", "U24") => wc!(U48, U24, v),
        ("U48", "u32") => wp!(U48, u32, v),
        _ => panic!("harness: no From<{}> for {}", from, ty),
    }
}

// ---------------------------------------------------------------------------- run

fn s<'a>(a: &'a Value, k: &str) -> &'a str {
    a[k].as_str().unwrap_or_else(|| panic!("harness: missing string field {}", k))
}
fn rv(x: Option<Value>) -> Value {
    match x {
        Some(v) => r_val(v),
        None => r_panic(),
    }
}

fn run_exec(out: &mut Out, ex: &[Value]) {
    let mut cfg = ex[0]["cfg"].clone();
    if !cfg.is_object() {
        cfg = json!({});
    }
    cfg["debug"] = json!(DEBUG);
    out.line(&json!({"ev":"reset","comp":"sample","cfg":cfg,"r":r_unit(),"o":{"ok":true,"debug":DEBUG},"h":[0,0,0]}));
    let o = json!({"ok": true, "debug": DEBUG});
    for op in &ex[1..] {
        let ev = op["ev"].as_str().expect("harness: ev");
        let a = &op["a"];
        match ev {
            "conv" => {
                let (src, dst) = (s(a, "src"), s(a, "dst"));
                let v = dec(src, &a["v"]);
                let mut rs: Vec<Option<Val>> = Vec::with_capacity(ROUTES as usize);
                let ((), h, _) = measured(|| {
                    for rt in 0..ROUTES {
                        rs.push(conv_dyn(src, dst, v, rt));
                    }
                });
                let p: Vec<u8> = rs.iter().map(|x| x.is_none() as u8).collect();
                let nw = nw_of(dst, rs[0]);
                out.ev(ev, a.clone(), routes_ret(&rs), json!({"ok": true, "debug": DEBUG, "p": p, "nw": nw}), h);
            }
            "via" => {
                let (src, to) = (s(a, "src"), s(a, "to"));
                let v = dec(src, &a["v"]);
                let ((r, d), h, _) = measured(|| via_dyn(src, to, v));
                let nw = nw_of(d, r);
                out.ev(ev, a.clone(), rv(r.map(enc)), json!({"ok": true, "debug": DEBUG, "d": d, "nw": nw}), h);
            }
            "amp" => {
                let (src, opn) = (s(a, "src"), s(a, "op"));
                let gf = gain_fmt(src, opn);
                let (v, g) = (dec(src, &a["v"]), dec(gf, &a["g"]));
                let (r, h, _) = measured(|| amp_dyn(src, opn, v, g));
                let nw = nw_of(src, r);
                out.ev(ev, a.clone(), rv(r.map(enc)), json!({"ok": true, "debug": DEBUG, "g": gf, "nw": nw}), h);
            }
            "sconst" => {
                let fmt = s(a, "fmt");
                let ((eq, id, idf), h, _) = measured(|| sconst_dyn(fmt));
                let lim: Vec<Value> = limits_dyn(fmt).into_iter().map(big).collect();
                out.ev(ev, a.clone(), r_val(json!({"eq": enc(eq), "id": enc(id), "idf": idf, "lim": lim})), o.clone(), h);
            }
            "eqconv" => {
                let (src, dst) = (s(a, "src"), s(a, "dst"));
                let (se, _, _) = sconst_dyn(src);
                let (de, _, _) = sconst_dyn(dst);
                let mut rs: Vec<Option<Val>> = Vec::with_capacity(ROUTES as usize);
                let ((), h, _) = measured(|| {
                    for rt in 0..ROUTES {
                        rs.push(conv_dyn(src, dst, se, rt));
                    }
                });
                let nw = nw_of(dst, rs[0]);
                let r = if rs.iter().all(|x| x.is_some()) {
                    r_val(json!({"se": enc(se), "de": enc(de), "c": rs.iter().map(|x| enc(x.unwrap())).collect::<Vec<_>>()}))
                } else {
                    r_panic()
                };
                out.ev(ev, a.clone(), r, json!({"ok": true, "debug": DEBUG, "nw": nw}), h);
            }
            "conv2" => {
                let (src, mid, dst) = (s(a, "src"), s(a, "mid"), s(a, "dst"));
                let route = a["route"].as_u64().unwrap_or(0) as u8; // 0..4, see pair!
                let v = dec(src, &a["v"]);
                let (rs, h, _) = measured(|| {
                    let m = conv_dyn(src, mid, v, route);
                    let f = m.and_then(|m| conv_dyn(mid, dst, m, route));
                    (m, f)
                });
                let r = match rs {
                    (Some(m), Some(f)) => r_val(json!({"mid": enc(m), "fin": enc(f)})),
                    _ => r_panic(),
                };
                out.ev(ev, a.clone(), r, o.clone(), h);
            }
            "ty_const" => {
                let ty = s(a, "ty");
                let (r, h, _) = measured(|| with_ty!(ty, T => [T::minc(), T::maxc(), T::eqc()]));
                out.ev(ev, a.clone(), r_val(json!([big(r[0]), big(r[1]), big(r[2])])), o.clone(), h);
            }
            "ty_new" => {
                let ty = s(a, "ty");
                let v = unbig(&a["v"]);
                let (r, h, _) = measured(|| with_ty!(ty, T => catch(|| T::new_(v).map(|x| x.inner_()))));
                let r = match r {
                    None => r_panic(),
                    Some(x) => r_opt(x.map(big)),
                };
                out.ev(ev, a.clone(), r, o.clone(), h);
            }
            "ty_from" => {
                let ty = s(a, "ty");
                let v = unbig(&a["v"]);
                let (r, h, _) = measured(|| with_ty!(ty, T => catch(|| T::from_rep(v).inner_())));
                out.ev(ev, a.clone(), rv(r.map(big)), o.clone(), h);
            }
            "ty_widen" => {
                let (ty, from) = (s(a, "ty"), s(a, "from"));
                let v = unbig(&a["v"]);
                let (r, h, _) = measured(|| widen_dyn(ty, from, v));
                out.ev(ev, a.clone(), rv(r.map(big)), o.clone(), h);
            }
            "ty_cmp" => {
                let ty = s(a, "ty");
                let (x, y) = (unbig(&a["a"]), unbig(&a["b"]));
                let (r, h, _) = measured(|| {
                    with_ty!(ty, T => catch(|| {
                        let (p, q) = (T::mk(x), T::mk(y));
                        let c = p.cmp(&q) as i64 + 1;
                        let pc = p.partial_cmp(&q).map(|c| c as i64 + 1).unwrap_or(9);
                        [(p < q) as i64, (p <= q) as i64, (p > q) as i64, (p >= q) as i64, (p == q) as i64, (p != q) as i64, c, pc]
                    }))
                });
                out.ev(ev, a.clone(), rv(r.map(|x| json!(x))), o.clone(), h);
            }
            "ty_op" => {
                let (ty, opn) = (s(a, "ty"), s(a, "op"));
                let (x, y) = (unbig(&a["a"]), unbig(&a["b"]));
                let (r, h, _) = measured(|| op_dyn(ty, opn, x, y));
                out.ev(ev, a.clone(), rv(r.map(big)), o.clone(), h);
            }
            "ty_ops" => {
                // compact sweep over the second operand (11-bit types): b = lo .. lo+n-1
                let (ty, opn) = (s(a, "ty"), s(a, "op"));
                let x = unbig(&a["a"]);
                let lo = a["lo"].as_i64().expect("lo");
                let n = a["n"].as_i64().expect("n");
                let mut res: Vec<i64> = Vec::with_capacity(n as usize);
                let ((), h, _) = measured(|| {
                    for b in lo..lo + n {
                        res.push(match op_dyn(ty, opn, x, b as i128) {
                            Some(v) => v as i64,
                            None => PANIC_SENTINEL,
                        });
                    }
                });
                out.ev(ev, a.clone(), r_val(json!(res)), o.clone(), h);
            }
            other => panic!("harness: unknown event {}", other),
        }
    }
}

// ---------------------------------------------------------------------------- gen (seeded stimuli; no expected values)

#[derive(Clone, Copy, PartialEq)]
struct IF {
    name: &'static str,
    bits: u32,
    signed: bool,
}
const INTS: [IF; 12] = [
    IF { name: "i8", bits: 8, signed: true },
    IF { name: "i16", bits: 16, signed: true },
    IF { name: "i24", bits: 24, signed: true },
    IF { name: "i32", bits: 32, signed: true },
    IF { name: "i48", bits: 48, signed: true },
    IF { name: "i64", bits: 64, signed: true },
    IF { name: "u8", bits: 8, signed: false },
    IF { name: "u16", bits: 16, signed: false },
    IF { name: "u24", bits: 24, signed: false },
    IF { name: "u32", bits: 32, signed: false },
    IF { name: "u48", bits: 48, signed: false },
    IF { name: "u64", bits: 64, signed: false },
];
fn half(bits: u32) -> i128 {
    1i128 << (bits - 1)
}
impl IF {
    /// value of the format with signed amplitude `a` about equilibrium
    fn from_amp(&self, a: i128) -> i128 {
        if self.signed {
            a
        } else {
            a + half(self.bits)
        }
    }
}

struct Groups {
    execs: Vec<Vec<Value>>,
    cur: Vec<Value>,
    name: String,
    cap: usize,
}
impl Groups {
    fn new(cap: usize) -> Groups {
        Groups { execs: Vec::new(), cur: Vec::new(), name: String::new(), cap }
    }
    fn start(&mut self, name: &str) {
        self.flush();
        self.name = name.to_string();
    }
    fn push(&mut self, ev: Value) {
        if self.cur.is_empty() {
            self.cur.push(json!({"ev":"reset","comp":"sample","cfg":{"grp":self.name}}));
        }
        self.cur.push(ev);
        if self.cur.len() > self.cap {
            self.flush();
        }
    }
    fn flush(&mut self) {
        if !self.cur.is_empty() {
            self.execs.push(std::mem::take(&mut self.cur));
        }
    }
}

// signed amplitudes in [-2^(bits-1), 2^(bits-1) - 1]
fn amp_uniform(rng: &mut Rng, bits: u32) -> i128 {
    let mask: u128 = if bits >= 64 { u64::MAX as u128 } else { (1u128 << bits) - 1 };
    ((rng.next() as u128) & mask) as i128 - half(bits)
}
/// uniform in the magnitude's bit length, then uniform below it
fn amp_exp(rng: &mut Rng, bits: u32) -> i128 {
    let l = rng.below(bits as u64) as u32; // 0 .. bits-1
    let m: u128 = if l == 0 { 0 } else { (1u128 << (l - 1)) | ((rng.next() as u128) & ((1u128 << (l - 1)) - 1)) };
    if rng.chance(1, 2) {
        -(m as i128)
    } else {
        m as i128
    }
}
/// neighbours of the sign change and of both extremes
fn amp_edge(rng: &mut Rng, bits: u32) -> i128 {
    match rng.below(3) {
        0 => rng.range(-4, 4) as i128,
        1 => -half(bits) + rng.range(0, 4) as i128,
        _ => half(bits) - 1 - rng.range(0, 4) as i128,
    }
}
/// neighbours of multiples of 2^sh (where a narrowing conversion drops bits)
fn amp_shift(rng: &mut Rng, bits: u32, sh: u32) -> i128 {
    if sh == 0 || sh >= bits {
        return amp_uniform(rng, bits);
    }
    let k = if rng.chance(1, 2) { amp_exp(rng, bits - sh) } else { amp_uniform(rng, bits - sh) };
    let a = (k << sh) + rng.range(-2, 2) as i128;
    a.max(-half(bits)).min(half(bits) - 1)
}
fn amp_mix(rng: &mut Rng, bits: u32, dbits: u32) -> i128 {
    match rng.below(8) {
        0 | 1 | 2 => amp_uniform(rng, bits),
        3 | 4 => amp_exp(rng, bits),
        5 => amp_edge(rng, bits),
        _ => amp_shift(rng, bits, bits.saturating_sub(dbits)),
    }
}
/// the source values of one (src, dst) pair
fn int_values(rng: &mut Rng, s: &IF, dbits: u32, thorough: bool, wide_n: usize, stride16: usize) -> Vec<i128> {
    let mut amps: Vec<i128> = Vec::new();
    match s.bits {
        8 => amps.extend(-128..128),
        16 => {
            if thorough {
                amps.extend(-32768..32768)
            } else {
                let off = rng.below(stride16 as u64) as i128;
                amps.extend((-32768..32768).filter(|a| (a + 32768 - off) % stride16 as i128 == 0));
                amps.extend([-32768, -32767, -257, -256, -255, -129, -128, -127, -2, -1, 0, 1, 2, 127, 128, 129, 255, 256, 257, 32766, 32767]);
            }
        }
        b => {
            for _ in 0..wide_n {
                amps.push(amp_mix(rng, b, dbits));
            }
        }
    }
    amps.into_iter().map(|a| s.from_amp(a)).collect()
}
fn conv_ev(src: &str, dst: &str, v: Value) -> Value {
    json!({"ev":"conv","a":{"src":src,"dst":dst,"v":v}})
}
fn conv2_ev(src: &str, mid: &str, dst: &str, v: Value, route: u64) -> Value {
    json!({"ev":"conv2","a":{"src":src,"mid":mid,"dst":dst,"v":v,"route":route}})
}

/// width of the `Signed` companion the stimuli assume for add_amp gains (a wrong guess only makes the
/// specification report the stimulus as outside the domain, which the check treats as a tool error)
fn signed_bits(s: &IF) -> u32 {
    match (s.bits, s.signed) {
        (24, false) => 32,
        (48, false) => 64,
        (b, _) => b,
    }
}
fn via_ev(src: &str, to: &str, v: Value) -> Value {
    json!({"ev":"via","a":{"src":src,"to":to,"v":v}})
}
fn amp_ev(src: &str, op: &str, v: Value, g: Value) -> Value {
    json!({"ev":"amp","a":{"src":src,"op":op,"v":v,"g":g}})
}
/// associated constants of every listed format and EQUILIBRIUM of every ordered pair converted
fn gen_consts(g: &mut Groups, tag: &str, fmts: &[&str], pair_ok: &dyn Fn(&str, &str) -> bool) {
    g.start(&format!("{} const", tag));
    for f in fmts {
        g.push(json!({"ev":"sconst","a":{"fmt":f}}));
    }
    for s in fmts {
        for d in fmts {
            if s != d && pair_ok(s, d) {
                g.push(json!({"ev":"eqconv","a":{"src":s,"dst":d}}));
            }
        }
    }
}

fn gen_c01(rng: &mut Rng, thorough: bool, g: &mut Groups) {
    let (wide_n, stride16, per_triple) = if thorough { (8000, 1, 60) } else { (400, 61, 4) };
    for s in INTS.iter() {
        for d in INTS.iter() {
            if s == d {
                continue;
            }
            g.start(&format!("c01 {}->{}", s.name, d.name));
            for v in int_values(rng, s, d.bits, thorough, wide_n, stride16) {
                g.push(conv_ev(s.name, d.name, big(v)));
            }
        }
    }
    // the trait's associated constants, and equilibrium (as the library publishes it) through every pair
    let names: Vec<&str> = INTS.iter().map(|f| f.name).collect();
    gen_consts(g, "c01", &names, &|_, _| true);
    // to_signed_sample: the conversion into the format's Signed companion
    for s in INTS.iter() {
        g.start(&format!("c01 {} to_signed_sample", s.name));
        for v in int_values(rng, s, signed_bits(s), thorough, wide_n, stride16) {
            g.push(via_ev(s.name, "signed", big(v)));
        }
    }
    // add_amp: offset in the Signed companion, converted back; gains chosen so that the sum stays in range
    let amp_n = if thorough { 4000 } else { 300 };
    for s in INTS.iter() {
        g.start(&format!("c01 {} add_amp", s.name));
        let sb = signed_bits(s);
        let (lo, hi) = (-half(sb), half(sb) - 1);
        for i in 0..amp_n {
            let a = amp_mix(rng, s.bits, s.bits);
            let big_a = a << (sb - s.bits);
            let gain = match i % 8 {
                0 => 0,
                1 => rng.range(-2, 2) as i128,
                2 => lo - big_a + rng.range(0, 2) as i128,
                3 => hi - big_a - rng.range(0, 2) as i128,
                4 => (amp_uniform(rng, s.bits) - a) << (sb - s.bits),
                5 => ((amp_uniform(rng, s.bits) - a) << (sb - s.bits)) + rng.range(-1, 1) as i128,
                _ => lo - big_a + ((rng.next() as u128) % ((hi - lo + 1) as u128)) as i128,
            };
            let gain = gain.max(lo - big_a).min(hi - big_a).max(lo).min(hi);
            g.push(amp_ev(s.name, "add", big(s.from_amp(a)), big(gain)));
        }
    }
    // two steps: every (src, mid, dst) with mid distinct from both ends (src = dst allowed: widen then narrow back)
    g.start("c01 two-step");
    for s in INTS.iter() {
        for m in INTS.iter() {
            for d in INTS.iter() {
                if m == s || m == d {
                    continue;
                }
                for _ in 0..per_triple {
                    let a = amp_mix(rng, s.bits, d.bits.min(m.bits));
                    g.push(conv2_ev(s.name, m.name, d.name, big(s.from_amp(a)), rng.below(5)));
                }
            }
        }
    }
}

// ---- floats of the documented domain [-1, 1)
fn f32_unit(rng: &mut Rng, grid_bits: u32) -> f32 {
    loop {
        let x = match rng.below(10) {
            0 | 1 | 2 => {
                let e = rng.below(127) as u32; // biased 0..126: subnormals up to just below 1
                let m = (rng.next() as u32) & 0x7f_ffff;
                f32::from_bits(((rng.below(2) as u32) << 31) | (e << 23) | m)
            }
            3 => ((rng.next() >> 40) as i64 - (1 << 23)) as f32 / 8_388_608.0,
            4 | 5 | 6 | 7 => {
                // a grid point k / 2^(bits-1) of the target and its neighbours
                let a = if rng.chance(1, 4) { amp_edge(rng, grid_bits) } else if rng.chance(1, 2) { amp_exp(rng, grid_bits) } else { amp_uniform(rng, grid_bits) };
                let x = (a as f64 / (half(grid_bits) as f64)) as f32;
                let b = x.to_bits();
                f32::from_bits(match rng.below(3) {
                    0 => b,
                    1 => b.wrapping_add(1),
                    _ => b.wrapping_sub(1),
                })
            }
            _ => *rng.pick(&[
                -1.0f32, -0.0, 0.0, 0.5, -0.5, 0.25, -0.75,
                f32::from_bits(0x3f7f_ffff), f32::from_bits(0xbf7f_ffff), // pred(1.0), -pred(1.0)
                f32::from_bits(1), f32::from_bits(0x8000_0001), f32::from_bits(0x007f_ffff), f32::from_bits(0x0080_0000),
                f32::from_bits(0x3f00_0001), f32::from_bits(0xbeff_ffff),
            ]),
        };
        if x >= -1.0 && x < 1.0 {
            return x;
        }
    }
}
fn f64_unit(rng: &mut Rng, grid_bits: u32) -> f64 {
    loop {
        let x = match rng.below(10) {
            0 | 1 | 2 => {
                let e = rng.below(1023); // biased 0..1022
                let m = rng.next() & ((1u64 << 52) - 1);
                f64::from_bits((rng.below(2) << 63) | (e << 52) | m)
            }
            3 => ((rng.next() >> 11) as i64 - (1i64 << 52)) as f64 / (1u64 << 52) as f64,
            4 | 5 | 6 | 7 => {
                let a = if rng.chance(1, 4) { amp_edge(rng, grid_bits) } else if rng.chance(1, 2) { amp_exp(rng, grid_bits) } else { amp_uniform(rng, grid_bits) };
                let x = a as f64 / (half(grid_bits) as f64);
                let b = x.to_bits();
                f64::from_bits(match rng.below(3) {
                    0 => b,
                    1 => b.wrapping_add(1),
                    _ => b.wrapping_sub(1),
                })
            }
            _ => *rng.pick(&[
                -1.0f64, -0.0, 0.0, 0.5, -0.5, 0.25, -0.75,
                f64::from_bits(0x3fef_ffff_ffff_ffff), f64::from_bits(0xbfef_ffff_ffff_ffff),
                f64::from_bits(1), f64::from_bits(0x8000_0000_0000_0001), f64::from_bits(0x000f_ffff_ffff_ffff), f64::from_bits(0x0010_0000_0000_0000),
                f64::from_bits(0x3fe0_0000_0000_0001), f64::from_bits(0xbfdf_ffff_ffff_ffff),
            ]),
        };
        if x >= -1.0 && x < 1.0 {
            return x;
        }
    }
}
fn f32_any(rng: &mut Rng) -> f32 {
    match rng.below(8) {
        0 => *rng.pick(&[0.0f32, -0.0, 1.0, -1.0, f32::MAX, f32::MIN, f32::MIN_POSITIVE, f32::INFINITY, f32::NEG_INFINITY,
                         f32::from_bits(1), f32::from_bits(0x807f_ffff), f32::NAN]),
        1 => f32::from_bits((rng.next() as u32) & 0x807f_ffff), // subnormal
        _ => f32::from_bits(rng.next() as u32),
    }
}
fn nudge64(rng: &mut Rng, x: f64) -> f64 {
    let b = x.to_bits();
    f64::from_bits(match rng.below(3) {
        0 => b,
        1 => b.wrapping_add(1),
        _ => b.wrapping_sub(1),
    })
}
/// f64 values that exercise the rounding of `as f32`: ties, subnormal results, overflow, underflow
fn f64_for_f32(rng: &mut Rng) -> f64 {
    match rng.below(10) {
        0 | 1 | 2 => {
            // exactly half way between two adjacent f32 values (any exponent, subnormals included), and its neighbours
            let yb = (rng.next() as u32) & 0x7fff_ffff;
            let y = f32::from_bits(yb);
            let y2 = f32::from_bits(yb.wrapping_add(1));
            if !y.is_finite() || !y2.is_finite() {
                return nudge64(rng, f32::MAX as f64 + 2f64.powi(103));
            }
            let t = (y as f64 + y2 as f64) / 2.0; // exact: f64 has 29 spare bits
            let t = nudge64(rng, t);
            if rng.chance(1, 2) { -t } else { t }
        }
        3 => {
            // around the overflow threshold and beyond
            let t = match rng.below(4) {
                0 => nudge64(rng, f32::MAX as f64 + 2f64.powi(103)),
                1 => nudge64(rng, f32::MAX as f64),
                2 => f64::from_bits(((1023 + rng.range(126, 130) as u64) << 52) | (rng.next() & ((1u64 << 52) - 1))),
                _ => f64::from_bits(((1023 + rng.range(131, 1023) as u64) << 52) | (rng.next() & ((1u64 << 52) - 1))),
            };
            if rng.chance(1, 2) { -t } else { t }
        }
        4 | 5 => {
            // results that are subnormal in f32, or vanish
            let t = match rng.below(4) {
                0 => nudge64(rng, 2f64.powi(-150)),
                1 => nudge64(rng, 2f64.powi(-149)),
                2 => nudge64(rng, 2f64.powi(-126)),
                _ => f64::from_bits(((1023 - rng.range(120, 160) as u64) << 52) | (rng.next() & ((1u64 << 52) - 1))),
            };
            if rng.chance(1, 2) { -t } else { t }
        }
        6 => f32::from_bits(rng.next() as u32) as f64, // already representable
        7 => *rng.pick(&[0.0f64, -0.0, 1.0, -1.0, f64::MAX, f64::MIN, f64::MIN_POSITIVE, f64::INFINITY, f64::NEG_INFINITY,
                         f64::from_bits(1), f64::NAN, 0.1, -0.3]),
        8 => {
            let e = (1023 + rng.range(-160, 130)) as u64;
            f64::from_bits((rng.below(2) << 63) | (e << 52) | (rng.next() & ((1u64 << 52) - 1)))
        }
        _ => f64::from_bits(rng.next()),
    }
}

fn gen_c02(rng: &mut Rng, thorough: bool, g: &mut Groups) {
    let (wide_n, stride16, f2i_n, ff_n, two_n) = if thorough { (12000, 1, 25000, 100000, 60) } else { (600, 67, 600, 4000, 4) };
    let floats = ["f32", "f64"];
    // integer -> float
    for s in INTS.iter() {
        for f in floats.iter() {
            g.start(&format!("c02 {}->{}", s.name, f));
            let fb = if *f == "f32" { 24 } else { 53 };
            for v in int_values(rng, s, fb, thorough, wide_n, stride16) {
                g.push(conv_ev(s.name, f, big(v)));
            }
            // rounding boundaries: amplitudes exactly half way between two adjacent floats of the target
            // (even and odd mantissa below, so both tie directions) and their immediate neighbours, at every
            // exponent -- where "correctly rounded" differs from truncation, round-half-up and double rounding
            if s.bits > fb {
                for t in fb..(s.bits - 1) {
                    for lsb in 0..2i128 {
                        let mid = (1i128 << t) + lsb * (1i128 << (t - fb + 1)) + (1i128 << (t - fb));
                        for d in -1..=1i128 {
                            for sign in [1i128, -1] {
                                let a = sign * (mid + d);
                                if a >= -(1i128 << (s.bits - 1)) && a < (1i128 << (s.bits - 1)) {
                                    g.push(conv_ev(s.name, f, big(s.from_amp(a))));
                                }
                            }
                        }
                    }
                }
            }
        }
    }
    // float in [-1, 1) -> integer
    for d in INTS.iter() {
        g.start(&format!("c02 f32->{}", d.name));
        for _ in 0..f2i_n {
            g.push(conv_ev("f32", d.name, f32f(f32_unit(rng, d.bits))));
        }
        g.start(&format!("c02 f64->{}", d.name));
        for _ in 0..f2i_n {
            g.push(conv_ev("f64", d.name, f64f(f64_unit(rng, d.bits))));
        }
    }
    // float <-> float
    g.start("c02 f32->f64");
    for _ in 0..ff_n {
        g.push(conv_ev("f32", "f64", f32f(f32_any(rng))));
    }
    g.start("c02 f64->f32");
    for _ in 0..ff_n {
        g.push(conv_ev("f64", "f32", f64f(f64_for_f32(rng))));
    }
    // associated constants; equilibrium through every pair with a float end
    let mut names: Vec<&str> = INTS.iter().map(|f| f.name).collect();
    names.extend(floats.iter());
    gen_consts(g, "c02", &names, &|s, d| s.starts_with('f') || d.starts_with('f'));
    // to_float_sample of every format, to_signed_sample of the floats (their own companions)
    for s in INTS.iter() {
        g.start(&format!("c02 {} to_float_sample", s.name));
        let fb = if s.bits > 32 { 53 } else { 24 };
        for v in int_values(rng, s, fb, thorough, wide_n, stride16) {
            g.push(via_ev(s.name, "float", big(v)));
        }
    }
    g.start("c02 float companions");
    for _ in 0..f2i_n {
        let to = *rng.pick(&["signed", "float"]);
        g.push(via_ev("f32", to, f32f(f32_any(rng))));
        g.push(via_ev("f64", to, f64f(f64_for_f32(rng))));
    }
    // mul_amp of the integer formats: scale in the Float companion, converted back (product inside [-1, 1))
    for s in INTS.iter() {
        g.start(&format!("c02 {} mul_amp", s.name));
        let wide = s.bits > 32;
        for i in 0..(if thorough { 6000 } else { f2i_n }) {
            let a = amp_mix(rng, s.bits, if wide { 53 } else { 24 });
            let inner = a > -half(s.bits) + half(s.bits) / 1024 && a < half(s.bits) - half(s.bits) / 1024;
            let unit: f64 = match i % 8 {
                0 => 0.0,
                1 if inner => 1.0,
                2 if inner => -1.0,
                3 => 0.5,
                4 => -0.0,
                _ => ((rng.next() >> 11) as f64 / (1u64 << 53) as f64 * 2.0 - 1.0) * 0.99,
            };
            let gj = if wide { f64f(unit) } else { f32f(unit as f32) };
            g.push(amp_ev(s.name, "mul", big(s.from_amp(a)), gj));
        }
    }
    // two steps with a float in the middle or at an end
    g.start("c02 two-step");
    for s in INTS.iter() {
        for f in floats.iter() {
            let fb = if *f == "f32" { 24 } else { 53 };
            for d in INTS.iter() {
                // int -> float -> int (d = s: the round trip)
                let k = if d == s { 4 * two_n } else { two_n };
                for _ in 0..k {
                    let a = amp_mix(rng, s.bits, fb.min(d.bits));
                    g.push(conv2_ev(s.name, f, d.name, big(s.from_amp(a)), rng.below(5)));
                }
            }
            // float -> int -> float, int -> float -> other float, float -> other float -> int
            let of = if *f == "f32" { "f64" } else { "f32" };
            for _ in 0..two_n {
                let x = if *f == "f32" { f32f(f32_unit(rng, s.bits)) } else { f64f(f64_unit(rng, s.bits)) };
                g.push(conv2_ev(f, s.name, f, x.clone(), rng.below(5)));
                g.push(conv2_ev(f, s.name, of, x.clone(), rng.below(5)));
                g.push(conv2_ev(f, of, s.name, x, rng.below(5)));
                let a = amp_mix(rng, s.bits, fb);
                g.push(conv2_ev(s.name, f, of, big(s.from_amp(a)), rng.below(5)));
            }
        }
    }
}

// ---- C15
struct TI {
    name: &'static str,
    bits: u32,
    signed: bool,
    rep: u32,
    neg: bool,
}
const TYS: [TI; 8] = [
    TI { name: "I11", bits: 11, signed: true, rep: 16, neg: true },
    TI { name: "I20", bits: 20, signed: true, rep: 32, neg: false },
    TI { name: "I24", bits: 24, signed: true, rep: 32, neg: true },
    TI { name: "I48", bits: 48, signed: true, rep: 64, neg: true },
    // U11 has a Neg impl; the property speaks of signed negation only, so the specification demands of it
    // just the type's range invariant (SampleTypes.tla RangeOnlyOp)
    TI { name: "U11", bits: 11, signed: false, rep: 16, neg: true },
    TI { name: "U20", bits: 20, signed: false, rep: 32, neg: false },
    TI { name: "U24", bits: 24, signed: false, rep: 32, neg: false },
    TI { name: "U48", bits: 48, signed: false, rep: 64, neg: false },
];
impl TI {
    fn min(&self) -> i128 {
        if self.signed { -half(self.bits) } else { 0 }
    }
    fn max(&self) -> i128 {
        if self.signed { half(self.bits) - 1 } else { (1i128 << self.bits) - 1 }
    }
    fn rep_min(&self) -> i128 {
        -half(self.rep)
    }
    fn rep_max(&self) -> i128 {
        half(self.rep) - 1
    }
    fn clampv(&self, v: i128) -> i128 {
        v.max(self.min()).min(self.max())
    }
    fn uniform(&self, rng: &mut Rng) -> i128 {
        self.min() + ((rng.next() as u128) % ((self.max() - self.min() + 1) as u128)) as i128
    }
    fn boundary(&self) -> Vec<i128> {
        let (lo, hi) = (self.min(), self.max());
        let eq = if self.signed { 0 } else { half(self.bits) };
        let mut v = vec![lo, lo + 1, lo + 2, hi - 2, hi - 1, hi, -2, -1, 0, 1, 2, 3, eq - 1, eq, eq + 1];
        let mut k = 2;
        while k < self.bits {
            for d in [-1i128, 0, 1] {
                v.push((1i128 << k) + d);
                v.push(-(1i128 << k) + d);
                v.push(hi - (1i128 << k) + d);
            }
            k += 1;
        }
        // factors whose product lands next to MAX
        let r = (hi as f64).sqrt() as i128;
        v.extend([r - 1, r, r + 1, r + 2, -r, -r - 1, hi / 2, hi / 2 + 1, hi / 3, hi / 3 + 1, lo / 2, lo / 2 - 1]);
        v.retain(|x| *x >= lo && *x <= hi);
        v.sort();
        v.dedup();
        v
    }
}
fn range_of(name: &str) -> (i128, i128) {
    match name {
        "i8" => (-128, 127),
        "u8" => (0, 255),
        "i16" => (-32768, 32767),
        "u16" => (0, 65535),
        "i32" => (i32::MIN as i128, i32::MAX as i128),
        "u32" => (0, u32::MAX as i128),
        other => {
            let t = TYS.iter().find(|t| t.name == other).expect("type");
            (t.min(), t.max())
        }
    }
}
fn ty_op_ev(ty: &str, op: &str, a: i128, b: i128) -> Value {
    json!({"ev":"ty_op","a":{"ty":ty,"op":op,"a":big(a),"b":big(b)}})
}

fn gen_c15(rng: &mut Rng, thorough: bool, g: &mut Groups) {
    let (n_rand, n_new, stride11) = if thorough { (6000, 1500, 1) } else { (600, 150, 41) };
    for t in TYS.iter() {
        let (lo, hi, tot) = (t.min(), t.max(), 1i128 << t.bits);
        g.start(&format!("c15 {} const/new/from", t.name));
        g.push(json!({"ev":"ty_const","a":{"ty":t.name}}));
        // checked construction and wrapping From<backing integer>: around both ends, far outside, random
        let mut vs: Vec<i128> = Vec::new();
        for d in -3..=3 {
            vs.extend([lo + d, hi + d, d, lo + tot + d, hi - tot + d, lo - tot + d, hi + tot + d, 5 * tot + d, -7 * tot + d]);
        }
        vs.extend([t.rep_min(), t.rep_min() + 1, t.rep_max(), t.rep_max() - 1, t.rep_min() / 2, t.rep_max() / 2]);
        for _ in 0..n_new {
            vs.push(match rng.below(3) {
                0 => t.uniform(rng),
                1 => t.rep_min() + ((rng.next() as u128) % (1u128 << t.rep)) as i128,
                _ => t.uniform(rng) + tot * rng.range(-4, 4) as i128,
            });
        }
        vs.retain(|x| *x >= t.rep_min() && *x <= t.rep_max());
        for v in vs.iter() {
            g.push(json!({"ev":"ty_new","a":{"ty":t.name,"v":big(*v)}}));
            g.push(json!({"ev":"ty_from","a":{"ty":t.name,"v":big(*v)}}));
        }
        // widening From impls
        g.start(&format!("c15 {} widen", t.name));
        let froms = WIDEN.iter().find(|w| w.0 == t.name).unwrap().1;
        for u in froms.iter() {
            let (ulo, uhi) = range_of(u);
            let mut ws = vec![ulo, ulo + 1, uhi - 1, uhi, (ulo + uhi) / 2, (ulo + uhi) / 2 + 1];
            for d in -2..=2 {
                if d >= ulo {
                    ws.push(d);
                }
            }
            for _ in 0..(n_new / 4).max(8) {
                ws.push(ulo + ((rng.next() as u128) % ((uhi - ulo + 1) as u128)) as i128);
            }
            for w in ws {
                g.push(json!({"ev":"ty_widen","a":{"ty":t.name,"from":u,"v":big(w)}}));
            }
        }
        // ordering
        g.start(&format!("c15 {} cmp", t.name));
        let bd = t.boundary();
        for _ in 0..n_rand {
            let (a, b) = match rng.below(4) {
                0 => (t.uniform(rng), t.uniform(rng)),
                1 => (*rng.pick(&bd), *rng.pick(&bd)),
                2 => {
                    let a = t.uniform(rng);
                    (a, t.clampv(a + rng.range(-1, 1) as i128))
                }
                _ => (*rng.pick(&bd), t.uniform(rng)),
            };
            g.push(json!({"ev":"ty_cmp","a":{"ty":t.name,"a":big(a),"b":big(b)}}));
        }
        // arithmetic: random pairs, pairs whose exact result lands next to a range end, boundary pairs
        g.start(&format!("c15 {} ops", t.name));
        for i in 0..n_rand {
            let op = ["add", "sub", "mul"][i % 3];
            let (a, b) = match rng.below(6) {
                0 | 1 => (t.uniform(rng), t.uniform(rng)),
                2 => (*rng.pick(&bd), *rng.pick(&bd)),
                3 => (*rng.pick(&bd), t.uniform(rng)),
                _ => {
                    // exact result within +-2 of MAX or MIN
                    let target = if rng.chance(1, 2) { hi } else { lo } + rng.range(-2, 2) as i128;
                    let a = t.uniform(rng);
                    match op {
                        "add" => (a, t.clampv(target - a)),
                        "sub" => (a, t.clampv(a - target)),
                        _ => {
                            let a = if a == 0 { 1 } else { t.clampv(amp_exp(rng, (t.bits / 2 + 2).min(t.bits))).max(lo) };
                            let a = if a == 0 { 3 } else { a };
                            (a, t.clampv(target / a + rng.range(-1, 1) as i128))
                        }
                    }
                }
            };
            g.push(ty_op_ev(t.name, op, a, b));
        }
        if t.neg {
            g.start(&format!("c15 {} neg", t.name));
            for a in bd.iter() {
                g.push(ty_op_ev(t.name, "neg", *a, 0));
            }
            for _ in 0..n_rand / 4 {
                g.push(ty_op_ev(t.name, "neg", t.uniform(rng), 0));
            }
        }
        // 11-bit types: every pair (thorough) / a strided sample of first operands against every second operand (quick)
        if t.bits == 11 {
            g.start(&format!("c15 {} exhaustive", t.name));
            let off = rng.below(stride11 as u64) as i128;
            for a in lo..=hi {
                if (a - lo - off) % stride11 as i128 != 0 && a != lo && a != hi && a != 0 && a != -1 && a != 1 {
                    continue;
                }
                for op in ["add", "sub", "mul"] {
                    g.push(json!({"ev":"ty_ops","a":{"ty":t.name,"op":op,"a":big(a),"lo":lo,"n":tot}}));
                }
            }
        }
    }
}

fn main() {
    let args: Vec<String> = std::env::args().collect();
    let c = cli();
    silence_panics();
    match c.mode.as_str() {
        "gen" => {
            // gen <seed> <quick|thorough> <stimuli-out> [c01|c02|c15]   (default: all three)
            let seed: u64 = c.a1.parse().expect("seed");
            let thorough = c.a2 == "thorough";
            let which = args.get(5).map(|s| s.to_lowercase()).unwrap_or_else(|| "all".to_string());
            let mut g = Groups::new(96);
            if which == "c01" || which == "all" {
                gen_c01(&mut Rng::new(seed ^ 0x01), thorough, &mut g);
            }
            if which == "c02" || which == "all" {
                gen_c02(&mut Rng::new(seed ^ 0x02), thorough, &mut g);
            }
            if which == "c15" || which == "all" {
                gen_c15(&mut Rng::new(seed ^ 0x15), thorough, &mut g);
            }
            g.flush();
            write_stimuli(&c.a3, &g.execs);
            eprintln!("hx_sample: {} executions, {} events", g.execs.len(), g.execs.iter().map(|e| e.len() - 1).sum::<usize>());
        }
        "run" => {
            let n = drive(&c.a1, &c.a2, run_exec);
            eprintln!("hx_sample: {} events (debug_assertions = {})", n, DEBUG);
        }
        _ => {
            eprintln!("usage: hx_sample run <stimuli> <trace> | gen <seed> <quick|thorough> <stimuli> [c01|c02|c15]");
            std::process::exit(2);
        }
    }
}
