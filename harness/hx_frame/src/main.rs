//! Driver + logger for dasp_sample's amplitude arithmetic, dasp_frame and dasp_slice (C03, C10).
//! `run <stimuli> <trace> [frame|slice]` executes stimuli (TLC's MC_Frame cases or the seeded ones
//! written by `gen <seed> <quick|thorough> <stimuli>`) on the real code and logs every call at its
//! return; spec/Trace_Frame.tla judges the log.  No expected values, no assertions about dasp's results.
//!
//! ONE generic driver (`frame_event::<S, F>` / `slice_event::<S, F>`) is instantiated by macro for
//! every width N = 1..=32 (F = [S; N]) and the bare sample (F = S, "n":0) on every one of the 14
//! formats.  The associated types are only ever named generically (`Sg<S>`), and their
//! format names are logged on every event (`o.sg`, `o.fl`; `o.sgt`/`o.flt` = core::any::type_name),
//! so a changed Signed/Float table is SEEN by the specification instead of breaking this build.
//!
//! All events are stateless; an execution is a `reset` header followed by a group of events.  The crate is built and
//! run in BOTH profiles (props/frame.py); the reset line says which one wrote the trace (`o.debug` = cfg!(debug_assertions)).
//! Samples travel as {"n","l"} limbs (integers) or IEEE fields {"s","e","m"} (floats); a frame is a
//! JSON array of samples (the bare sample is a 1-element array), a slice of frames an array of those.
//!   s_add_amp s_mul_amp   a{fmt,s,amp}            r val | panic
//!   s_to_signed s_to_float a{fmt,s}               r val
//!   s_consts               a{fmt}                 r val {eq,id}
//!   f_offset f_scale       a{fmt,n,x,amp}         r val frame | panic
//!   f_add f_mul            a{fmt,n,x,y}           r val frame | panic     (y in the Signed / Float format)
//!   f_to_signed f_to_float a{fmt,n,x}             r val frame
//!   f_equilibrium          a{fmt,n}               r val frame             o{cn = CHANNELS}
//!   f_map                  a{fmt,n,x,ys}          r val frame             o{calls}   closure: logs its argument, k-th call returns ys[k]
//!   f_zip_map              a{fmt,n,x,y,ys}        r val frame             o{ca,cb}
//!   f_from_fn              a{fmt,n,ys}            r val frame             o{calls}   closure: logs the index, returns ys[index]
//!   f_from_samples         a{fmt,n,it}            r some frame | none     o{consumed,rest}
//!   f_channels             a{fmt,n,x}             r items                 o{lens,fused,refs,rev,cn}
//!   f_channels_mut         a{fmt,n,x,ys}          r val frame             o{seen}
//!   f_channel              a{fmt,n,x,i,v}         r some|none (channel)   o{m,after (channel_mut), u,uafter (unchecked, i < n only)}
//!   f_iter                 a{fmt,n,x,it,k,kb,op,j,v}  r items             o{pre,preb,len,sh,rest,cnt,clen,csh,after,cn}
//!       it = val|ref|mut: channels() / channels_ref() / channels_mut() used AS AN ITERATOR: k times next() (`pre` = what
//!       came out), kb times next_back() (`preb`; ref / mut only), then ONE call `op` with argument j on what is left:
//!       nth(j) | skip(j) | step_by(j) | last | count | collect | rev | nth_back(j)  (the last two: ref / mut only)
//!       | clone | cycle(j)  (val / ref only: ChannelsMut is not Clone).  clone: r = what the CLONE yields when drained,
//!       `clen` / `csh` = its len() / size_hint() at birth (else -1), then `len[2]` / `sh[2]` / `rest` = the ORIGINAL
//!       afterwards.  cycle(j): r = cycle().take(j).
//!       r = the items that call yielded (adaptors are drained through `take(cap)`, so an iterator that never ends shows
//!       up as a wrong result, not as a hang); `len` / `sh` = len() / size_hint() [lo, hi or -1] when fresh, after the
//!       prefix and after the call (nth / nth_back; else -1); `rest` = what next() yields after nth / nth_back; `cnt` =
//!       count()'s answer (else -1); through channels_mut every reference the call yields is overwritten with v: `after`.
//!   to_frames              a{fmt,n,len,kind,route,x,w}   r some|none      o{flen,frames,same_ptr,after,back{k,len,same_ptr,v,h},live,bytes}
//!   to_samples             a{fmt,n,len,kind,route,x,w}   r val            o{slen,samples,same_ptr,after,live,bytes}
//!   inplace                a{fmt,n,op,la,lb,xa,xb,ys,ampf} r unit|panic   o{after,ca,cb}
//! `h` = [allocs, reallocs, frees] inside the call; boxed conversions also log the change of live bytes.
use dasp_frame::Frame;
use dasp_sample::{Sample, I24, I48, U24, U48};
use hx_common::*;
use serde_json::{json, Value};

#[global_allocator]
static A: CountingAlloc = CountingAlloc;

type Rec = (Value, Value, [i64; 3]);

// Local, always-inlined twins of hx_common::measured / hx_common::catch for the code that is instantiated per
// (format, width): instances of a generic function defined in another crate all land in ONE codegen unit, which
// made the 1 900 closures of `slice_raw` a serial three-minute LLVM job.  Same semantics: heap counters around
// the call, a panic inside the call is data (and stays silent, see `quiet_panics`).
static IN_CATCH_L: std::sync::atomic::AtomicI64 = std::sync::atomic::AtomicI64::new(0);
#[inline(always)]
fn measured_l<T>(f: impl FnOnce() -> T) -> (T, [i64; 3], i64) {
    let b = heap_now();
    let r = f();
    let d = heap_now().since(b);
    (r, [d[0], d[1], d[2]], d[3])
}
#[inline(always)]
fn catch_l<T>(f: impl FnOnce() -> T) -> Option<T> {
    IN_CATCH_L.fetch_add(1, std::sync::atomic::Ordering::Relaxed);
    let r = std::panic::catch_unwind(std::panic::AssertUnwindSafe(f)).ok();
    IN_CATCH_L.fetch_sub(1, std::sync::atomic::Ordering::Relaxed);
    r
}
/// hx_common::silence_panics first (its hook stays quiet inside hx_common::catch), then the same for catch_l.
fn quiet_panics() {
    silence_panics();
    let inner = std::panic::take_hook();
    std::panic::set_hook(Box::new(move |info| {
        if IN_CATCH_L.load(std::sync::atomic::Ordering::Relaxed) == 0 || std::env::var("HX_LOUD").is_ok() {
            inner(info);
        }
    }));
}
type Sg<S> = <S as Sample>::Signed;
type Fl<S> = <S as Sample>::Float;
type Afl<S> = <<S as Sample>::Signed as Sample>::Float;

// ---------------------------------------------------------------------------- sample formats

trait Hx: Sample + Copy + PartialEq + 'static {
    const FMT: &'static str;
    fn enc(self) -> Value;
    fn dec(v: &Value) -> Self;
}
macro_rules! hx_prim { ($($T:ident),*) => {$(
    impl Hx for $T {
        const FMT: &'static str = stringify!($T);
        fn enc(self) -> Value { big(self as i128) }
        fn dec(v: &Value) -> Self { unbig(v) as $T }
    }
)*} }
hx_prim!(i8, i16, i32, i64, u8, u16, u32, u64);
macro_rules! hx_custom { ($($T:ident : $R:ty : $name:literal),*) => {$(
    impl Hx for $T {
        const FMT: &'static str = $name;
        fn enc(self) -> Value { big(self.inner() as i128) }
        fn dec(v: &Value) -> Self { <$T>::new_unchecked(unbig(v) as $R) }
    }
)*} }
hx_custom!(I24: i32: "i24", U24: i32: "u24", I48: i64: "i48", U48: i64: "u48");
impl Hx for f32 {
    const FMT: &'static str = "f32";
    fn enc(self) -> Value {
        f32f(self)
    }
    fn dec(v: &Value) -> Self {
        unf32(v)
    }
}
impl Hx for f64 {
    const FMT: &'static str = "f64";
    fn enc(self) -> Value {
        f64f(self)
    }
    fn dec(v: &Value) -> Self {
        unf64(v)
    }
}
fn dec_vec<S: Hx>(v: &Value) -> Vec<S> {
    v.as_array().map(|a| a.iter().map(S::dec).collect()).unwrap_or_default()
}
fn enc_vec<S: Hx>(xs: &[S]) -> Value {
    Value::Array(xs.iter().map(|s| s.enc()).collect())
}
fn rv(r: Option<Value>) -> Value {
    match r {
        Some(v) => r_val(v),
        None => r_panic(),
    }
}
fn base_o<S: Hx>() -> Value
where
    Sg<S>: Hx,
    Fl<S>: Hx,
{
    json!({"sg": <Sg<S> as Hx>::FMT, "fl": <Fl<S> as Hx>::FMT,
           "sgt": core::any::type_name::<Sg<S>>(), "flt": core::any::type_name::<Fl<S>>()})
}

// ---------------------------------------------------------------------------- frames
//
// Compile-time budget: the code that is instantiated once per (format, width) -- 14 x 33 times -- is
// kept free of JSON and of per-operation closures: `frame_raw` / `slice_raw` move plain samples between
// pre-allocated vectors and call dasp.  Decoding, the heap window / panic capture around the call and
// encoding happen once per FORMAT in `frame_event` / `slice_event`.

/// A frame type of the harness: [S; N] for every N (const generic) and the bare sample.
trait Fr<S: Hx>: Frame<Sample = S, Channels: ExactSizeIterator + Clone> {
    fn build(x: &[S]) -> Self;
    fn dump(&self, out: &mut Vec<S>);
}
// (`build` / `dump` are deliberately not inlined: one copy per frame type instead of one per use)
impl<S: Hx, const N: usize> Fr<S> for [S; N] {
    #[inline(never)]
    fn build(x: &[S]) -> Self {
        core::array::from_fn(|i| if i < x.len() { x[i] } else { S::EQUILIBRIUM })
    }
    #[inline(never)]
    fn dump(&self, out: &mut Vec<S>) {
        out.extend_from_slice(self)
    }
}
macro_rules! fr_bare { ($($T:ty),*) => {$(
    impl Fr<$T> for $T {
        #[inline(never)]
        fn build(x: &[$T]) -> Self { if x.is_empty() { <$T as Sample>::EQUILIBRIUM } else { x[0] } }
        #[inline(never)]
        fn dump(&self, out: &mut Vec<$T>) { out.push(*self) }
    }
)*} }
fr_bare!(i8, i16, I24, i32, I48, i64, u8, u16, U24, u32, U48, u64, f32, f64);

fn frames_json<S: Hx>(flat: &[S], nn: usize) -> Value {
    Value::Array(flat.chunks(nn).map(|c| enc_vec(c)).collect())
}
fn flat_frames<S: Hx>(v: &Value) -> Vec<S> {
    let mut out = Vec::new();
    if let Some(a) = v.as_array() {
        for f in a {
            out.extend(dec_vec::<S>(f));
        }
    }
    out
}
fn idx_json(i: usize) -> Value {
    if i > 1_000_000 {
        json!(-1)
    } else {
        json!(i)
    }
}

fn sample_event<S>(ev: &str, a: &Value) -> Rec
where
    S: Hx,
    Sg<S>: Hx,
    Fl<S>: Hx,
{
    let o = base_o::<S>();
    match ev {
        "s_add_amp" => {
            let s = S::dec(&a["s"]);
            let amp = <Sg<S> as Hx>::dec(&a["amp"]);
            let (r, h, _) = measured(|| catch(|| Sample::add_amp(s, amp)));
            (rv(r.map(|x| x.enc())), o, h)
        }
        "s_mul_amp" => {
            let s = S::dec(&a["s"]);
            let amp = <Fl<S> as Hx>::dec(&a["amp"]);
            let (r, h, _) = measured(|| catch(|| Sample::mul_amp(s, amp)));
            (rv(r.map(|x| x.enc())), o, h)
        }
        "s_to_signed" => {
            let s = S::dec(&a["s"]);
            let (r, h, _) = measured(|| catch(|| s.to_signed_sample()));
            (rv(r.map(|x| x.enc())), o, h)
        }
        "s_to_float" => {
            let s = S::dec(&a["s"]);
            let (r, h, _) = measured(|| catch(|| s.to_float_sample()));
            (rv(r.map(|x| x.enc())), o, h)
        }
        "s_consts" => {
            let (r, h, _) = measured(|| catch(|| (S::EQUILIBRIUM, S::IDENTITY)));
            (rv(r.map(|(e, i)| json!({"eq": e.enc(), "id": i.enc()}))), o, h)
        }
        _ => panic!("harness: unknown sample event {}", ev),
    }
}

#[derive(Clone, Copy, PartialEq, Debug)]
enum Op {
    Offset,
    Scale,
    Add,
    Mul,
    ToSigned,
    ToFloat,
    Equilibrium,
    Map,
    ZipMap,
    FromFn,
    FromSamples,
    Channels,
    ChannelsMut,
    Channel,
    Iter,
}
/// The calls `f_iter` makes on a partially consumed channel iterator.
#[derive(Clone, Copy, PartialEq, Debug)]
enum IOp {
    Nth,
    Skip,
    StepBy,
    Last,
    Count,
    Collect,
    Rev,
    NthBack,
    Clone,
    Cycle,
}
/// Plain inputs and pre-allocated outputs of one `f_iter` event.
struct IterIo<S> {
    kind: u8, // 0 = channels(), 1 = channels_ref(), 2 = channels_mut()
    op: IOp,
    k: usize,
    kb: usize,
    j: usize,
    cap: usize,
    v: Option<S>,
    // outputs
    pre: Vec<S>,
    preb: Vec<S>,
    items: Vec<S>,
    rest: Vec<S>,
    after: Vec<S>,
    lens: [i64; 3],
    sh: [[i64; 2]; 3],
    cnt: i64,
    clen: i64,
    csh: [i64; 2],
}
fn hint(h: (usize, Option<usize>)) -> [i64; 2] {
    [h.0 as i64, h.1.map(|u| u as i64).unwrap_or(-1)]
}
/// Drives ONE channel iterator: `k` x next(), `kb` x next_back(), then the call under test.  `rd` reads an item,
/// `wr` reads it and (channels_mut) overwrites the channel it refers to.  The three double-ended calls come in as
/// closures, so that the by-value iterator -- which is not double-ended -- goes through the very same body.
/// Everything that is drained is drained through `take(cap)`: cap > CHANNELS, so a correct iterator never notices.
#[inline(always)]
fn iter_drive<S: Copy, I: ExactSizeIterator>(
    mut it: I,
    io: &mut IterIo<S>,
    rd: impl Fn(I::Item) -> S,
    wr: impl Fn(I::Item) -> S,
    next_back: impl Fn(&mut I) -> Option<I::Item>,
    nth_back: impl Fn(&mut I, usize) -> Option<I::Item>,
    rev_all: impl FnOnce(I, usize, &mut dyn FnMut(I::Item)),
    clone_of: impl Fn(&I) -> Option<I>,
    cycle_all: impl FnOnce(I, usize, &mut dyn FnMut(I::Item)),
) {
    let (cap, j) = (io.cap, io.j);
    io.lens[0] = it.len() as i64;
    io.sh[0] = hint(it.size_hint());
    for _ in 0..io.k.min(cap) {
        if let Some(r) = it.next() {
            io.pre.push(rd(r));
        }
    }
    for _ in 0..io.kb.min(cap) {
        if let Some(r) = next_back(&mut it) {
            io.preb.push(rd(r));
        }
    }
    io.lens[1] = it.len() as i64;
    io.sh[1] = hint(it.size_hint());
    match io.op {
        IOp::Nth | IOp::NthBack => {
            let r = if io.op == IOp::Nth { it.nth(j) } else { nth_back(&mut it, j) };
            if let Some(r) = r {
                io.items.push(wr(r));
            }
            io.lens[2] = it.len() as i64;
            io.sh[2] = hint(it.size_hint());
            while io.rest.len() < cap {
                match it.next() {
                    Some(r) => io.rest.push(rd(r)),
                    None => break,
                }
            }
        }
        IOp::Skip => {
            for r in it.skip(j).take(cap) {
                io.items.push(wr(r));
            }
        }
        IOp::StepBy => {
            for r in it.step_by(j).take(cap) {
                io.items.push(wr(r));
            }
        }
        IOp::Last => {
            if let Some(r) = it.last() {
                io.items.push(wr(r));
            }
        }
        IOp::Count => io.cnt = it.count() as i64,
        IOp::Collect => {
            let items = &mut io.items;
            it.take(cap).for_each(|r| items.push(wr(r)));
        }
        IOp::Rev => {
            let items = &mut io.items;
            rev_all(it, cap, &mut |r| items.push(wr(r)));
        }
        IOp::Clone => {
            // the clone is born (len / size_hint logged) and drained FIRST, then the original is looked at again
            if let Some(mut c) = clone_of(&it) {
                io.clen = c.len() as i64;
                io.csh = hint(c.size_hint());
                while io.items.len() < cap {
                    match c.next() {
                        Some(r) => io.items.push(rd(r)),
                        None => break,
                    }
                }
            }
            io.lens[2] = it.len() as i64;
            io.sh[2] = hint(it.size_hint());
            while io.rest.len() < cap {
                match it.next() {
                    Some(r) => io.rest.push(rd(r)),
                    None => break,
                }
            }
        }
        IOp::Cycle => {
            let items = &mut io.items;
            cycle_all(it, j.min(cap), &mut |r| items.push(rd(r)));
        }
    }
}
fn frame_op(ev: &str) -> Op {
    match ev {
        "f_offset" => Op::Offset,
        "f_scale" => Op::Scale,
        "f_add" => Op::Add,
        "f_mul" => Op::Mul,
        "f_to_signed" => Op::ToSigned,
        "f_to_float" => Op::ToFloat,
        "f_equilibrium" => Op::Equilibrium,
        "f_map" => Op::Map,
        "f_zip_map" => Op::ZipMap,
        "f_from_fn" => Op::FromFn,
        "f_from_samples" => Op::FromSamples,
        "f_channels" => Op::Channels,
        "f_channels_mut" => Op::ChannelsMut,
        "f_channel" => Op::Channel,
        "f_iter" => Op::Iter,
        _ => panic!("harness: unknown frame event {}", ev),
    }
}

/// Plain inputs and pre-allocated outputs of one frame call.
struct FrameIo<S: Sample> {
    nn: usize,
    cap: usize,
    x: Vec<S>,
    y: Vec<S>,
    ys: Vec<S>,
    ysg: Vec<Sg<S>>,
    yfl: Vec<Fl<S>>,
    asg: Option<Sg<S>>,
    afl: Option<Fl<S>>,
    i: usize,
    v: Option<S>,
    // outputs
    out: Vec<S>,
    out2: Vec<S>,
    out_sg: Vec<Sg<S>>,
    out_fl: Vec<Fl<S>>,
    c1: Vec<S>,
    c2: Vec<S>,
    idxs: Vec<usize>,
    flag: bool,
    nums: [usize; 3],
    opt: [Option<S>; 3],
    some: bool,
    it: IterIo<S>,
}

/// The part instantiated per (format, width): calls dasp_frame on F and nothing else.
#[inline(always)]
fn frame_raw<S, F>(op: Op, io: &mut FrameIo<S>)
where
    S: Hx,
    F: Fr<S>,
    F::Signed: Fr<Sg<S>>,
    F::Float: Fr<Fl<S>>,
    Sg<S>: Hx,
    Fl<S>: Hx,
{
    let cap = io.cap;
    let fx = F::build(&io.x); // (padded with a filler when the operation has no frame argument)
    match op {
        Op::Offset => fx.offset_amp(io.asg.unwrap()).dump(&mut io.out),
        Op::Scale => fx.scale_amp(io.afl.unwrap()).dump(&mut io.out),
        Op::Add => Frame::add_amp(fx, <F::Signed as Fr<Sg<S>>>::build(&io.ysg)).dump(&mut io.out),
        Op::Mul => Frame::mul_amp(fx, <F::Float as Fr<Fl<S>>>::build(&io.yfl)).dump(&mut io.out),
        Op::ToSigned => fx.to_signed_frame().dump(&mut io.out_sg),
        Op::ToFloat => fx.to_float_frame().dump(&mut io.out_fl),
        Op::Equilibrium => {
            F::EQUILIBRIUM.dump(&mut io.out);
            io.nums[0] = F::CHANNELS;
        }
        Op::Map => {
            let (ys, c1) = (&io.ys, &mut io.c1);
            let mut k = 0usize;
            let r: F = Frame::map(fx, |s| {
                if c1.len() < cap {
                    c1.push(s);
                }
                k += 1;
                ys[(k - 1) % ys.len()]
            });
            r.dump(&mut io.out);
        }
        Op::ZipMap => {
            let (ys, c1, c2) = (&io.ys, &mut io.c1, &mut io.c2);
            let mut k = 0usize;
            let r: F = Frame::zip_map(fx, F::build(&io.y), |p, q| {
                if c1.len() < cap {
                    c1.push(p);
                    c2.push(q);
                }
                k += 1;
                ys[(k - 1) % ys.len()]
            });
            r.dump(&mut io.out);
        }
        Op::FromFn => {
            let (ys, idxs) = (&io.ys, &mut io.idxs);
            let r = F::from_fn(|i| {
                if idxs.len() < cap {
                    idxs.push(i);
                }
                ys[i % ys.len()]
            });
            r.dump(&mut io.out);
        }
        Op::FromSamples => {
            // io.y = the iterator's items; io.nums[0] counts the items it handed out
            let mut consumed = 0usize;
            let mut src = io.y.iter().cloned();
            let r = {
                let mut counting = (&mut src).inspect(|_| consumed += 1);
                F::from_samples(&mut counting)
            };
            io.nums[0] = consumed;
            for s in src {
                io.out2.push(s); // what is left in the borrowed iterator
            }
            io.some = r.is_some();
            if let Some(f) = r {
                f.dump(&mut io.out);
            }
        }
        Op::Channels => {
            let mut ch = fx.channels();
            loop {
                io.idxs.push(ch.len());
                match ch.next() {
                    Some(s) if io.out.len() + 2 < cap => io.out.push(s),
                    _ => break,
                }
            }
            io.flag = ch.next().is_none() && ch.next().is_none();
            let cr = fx.channels_ref();
            io.nums[1] = cr.len();
            for s in cr.take(cap - 2) {
                io.c1.push(*s);
            }
            let cr = fx.channels_ref();
            io.nums[2] = cr.size_hint().0;
            for s in cr.rev().take(cap - 2) {
                io.c2.push(*s);
            }
            io.nums[0] = F::CHANNELS;
        }
        Op::ChannelsMut => {
            let mut fx = fx;
            for (k, r) in fx.channels_mut().enumerate().take(cap - 2) {
                io.c1.push(*r);
                *r = io.ys[k % io.ys.len()];
            }
            fx.dump(&mut io.out);
        }
        Op::Channel => {
            let (i, v) = (io.i, io.v.unwrap());
            let mut fm = fx;
            let mut fu = fx;
            io.opt[0] = fx.channel(i).copied();
            io.opt[1] = match fm.channel_mut(i) {
                Some(r) => {
                    let old = *r;
                    *r = v;
                    Some(old)
                }
                None => None,
            };
            // the unchecked accessors are only ever called with an index inside the frame
            io.opt[2] = if i < io.nn {
                let old = unsafe { *fu.channel_unchecked(i) };
                unsafe { *fu.channel_unchecked_mut(i) = v };
                Some(old)
            } else {
                None
            };
            fm.dump(&mut io.out);
            fu.dump(&mut io.out2);
        }
        Op::Iter => {
            let mut fx = fx;
            let it = &mut io.it;
            match it.kind {
                0 => iter_drive(
                    fx.channels(),
                    it,
                    |s| s,
                    |s| s,
                    |_| None,
                    |_, _| None,
                    |_, _, _| (),
                    |i| Some(i.clone()),
                    |i, m, f| i.cycle().take(m).for_each(f),
                ),
                1 => iter_drive(
                    fx.channels_ref(),
                    it,
                    |r| *r,
                    |r| *r,
                    |i| i.next_back(),
                    |i, j| i.nth_back(j),
                    |i, cap, f| i.rev().take(cap).for_each(f),
                    |i| Some(i.clone()),
                    |i, m, f| i.cycle().take(m).for_each(f),
                ),
                _ => {
                    let v = it.v.unwrap();
                    iter_drive(
                        fx.channels_mut(),
                        it,
                        |r| *r,
                        |r| core::mem::replace(r, v),
                        |i| i.next_back(),
                        |i, j| i.nth_back(j),
                        |i, cap, f| i.rev().take(cap).for_each(f),
                        |_| None, // ChannelsMut is not Clone
                        |_, _, _| (),
                    )
                }
            }
            fx.dump(&mut it.after);
            io.nums[0] = F::CHANNELS;
        }
    }
}

/// The 33 instantiations of one format live in three modules of their own (widths 0..=10, 11..=21, 22..=32):
/// rustc places the instances of a generic function in the codegen unit of the module that DEFINES it, so
/// 42 modules (with the shared bodies `#[inline(always)]`) are optimised in parallel instead of in one serial unit.
trait Picks: Sample + Sized {
    fn pick_frame(n: usize) -> fn(Op, &mut FrameIo<Self>);
    fn pick_slice(n: usize) -> fn(SOp, &mut SliceIo<Self>);
}
macro_rules! width_group { ($m:ident, $S:ty; $($N:literal)*) => {
    pub mod $m {
        use super::super::*;
        pub fn frame_w<F>(op: Op, io: &mut FrameIo<$S>)
        where
            F: Fr<$S>,
            <F as Frame>::Signed: Fr<Sg<$S>>,
            <F as Frame>::Float: Fr<Fl<$S>>,
        {
            frame_raw::<$S, F>(op, io)
        }
        pub fn slice_w<F>(op: SOp, io: &mut SliceIo<$S>)
        where
            F: Sl<$S>,
            <F as Frame>::Signed: Fr<Sg<$S>>,
            <<F as Frame>::Signed as Frame>::Float: Fr<Afl<$S>>,
        {
            slice_raw::<$S, F>(op, io)
        }
        pub fn pick_frame(n: usize) -> Option<fn(Op, &mut FrameIo<$S>)> {
            match n {
                0 => Some(frame_w::<$S>), // (only reached in the first group)
                $($N => Some(frame_w::<[$S; $N]>),)*
                _ => None,
            }
        }
        pub fn pick_slice(n: usize) -> Option<fn(SOp, &mut SliceIo<$S>)> {
            match n {
                0 => Some(slice_w::<$S>),
                $($N => Some(slice_w::<[$S; $N]>),)*
                _ => None,
            }
        }
    }
} }
macro_rules! per_format { ($($m:ident : $S:ty),*) => {$(
    mod $m {
        width_group!(a, $S; 1 2 3 4 5 6 7 8 9 10);
        width_group!(b, $S; 11 12 13 14 15 16 17 18 19 20 21);
        width_group!(c, $S; 22 23 24 25 26 27 28 29 30 31 32);
    }
    impl Picks for $S {
        fn pick_frame(n: usize) -> fn(Op, &mut FrameIo<$S>) {
            let g = if n <= 10 { $m::a::pick_frame(n) } else if n <= 21 { $m::b::pick_frame(n) } else { $m::c::pick_frame(n) };
            g.unwrap_or_else(|| panic!("harness: no frame of width {}", n))
        }
        fn pick_slice(n: usize) -> fn(SOp, &mut SliceIo<$S>) {
            let g = if n <= 10 { $m::a::pick_slice(n) } else if n <= 21 { $m::b::pick_slice(n) } else { $m::c::pick_slice(n) };
            g.unwrap_or_else(|| panic!("harness: no frame of width {}", n))
        }
    }
)*} }

/// Once per format: decode, run the call under test inside the heap window / panic capture, encode.
fn frame_event<S>(ev: &str, a: &Value, n: usize) -> Rec
where
    S: Hx + Picks,
    Sg<S>: Hx,
    Fl<S>: Hx,
    Afl<S>: Hx,
{
    let op = frame_op(ev);
    let nn = n.max(1);
    let cap = nn + 72;
    let mut io: FrameIo<S> = FrameIo {
        nn,
        cap,
        x: dec_vec(&a["x"]),
        y: if op == Op::ZipMap { dec_vec(&a["y"]) } else { dec_vec(&a["it"]) },
        ys: dec_vec(&a["ys"]),
        ysg: if op == Op::Add { dec_vec(&a["y"]) } else { Vec::new() },
        yfl: if op == Op::Mul { dec_vec(&a["y"]) } else { Vec::new() },
        asg: if op == Op::Offset { Some(<Sg<S> as Hx>::dec(&a["amp"])) } else { None },
        afl: if op == Op::Scale { Some(<Fl<S> as Hx>::dec(&a["amp"])) } else { None },
        i: match a["i"].as_i64() {
            Some(i) if i >= 0 => i as usize,
            Some(_) => usize::MAX,
            None => 0,
        },
        v: if op == Op::Channel { Some(S::dec(&a["v"])) } else { None },
        out: Vec::with_capacity(cap),
        out2: Vec::with_capacity(cap + a["it"].as_array().map(|x| x.len()).unwrap_or(0)),
        out_sg: Vec::with_capacity(cap),
        out_fl: Vec::with_capacity(cap),
        c1: Vec::with_capacity(cap),
        c2: Vec::with_capacity(cap),
        idxs: Vec::with_capacity(cap),
        flag: false,
        nums: [0; 3],
        opt: [None; 3],
        some: false,
        it: IterIo {
            kind: match a["it"].as_str() {
                Some("ref") => 1,
                Some("mut") => 2,
                _ => 0,
            },
            op: match a["op"].as_str() {
                Some("nth") => IOp::Nth,
                Some("skip") => IOp::Skip,
                Some("step_by") => IOp::StepBy,
                Some("last") => IOp::Last,
                Some("count") => IOp::Count,
                Some("rev") => IOp::Rev,
                Some("nth_back") => IOp::NthBack,
                Some("clone") => IOp::Clone,
                Some("cycle") => IOp::Cycle,
                Some("collect") | None => IOp::Collect,
                Some(o) => panic!("harness: unknown iterator call {}", o),
            },
            k: a["k"].as_u64().unwrap_or(0) as usize,
            kb: a["kb"].as_u64().unwrap_or(0) as usize,
            j: a["j"].as_u64().unwrap_or(0) as usize,
            cap,
            v: if op == Op::Iter { Some(S::dec(&a["v"])) } else { None },
            pre: Vec::with_capacity(cap),
            preb: Vec::with_capacity(cap),
            items: Vec::with_capacity(cap),
            rest: Vec::with_capacity(cap),
            after: Vec::with_capacity(cap),
            lens: [-1; 3],
            sh: [[-1; 2]; 3],
            cnt: -1,
            clen: -1,
            csh: [-1; 2],
        },
    };
    let f: fn(Op, &mut FrameIo<S>) = S::pick_frame(n);
    let (r, h, _) = measured(|| catch(|| f(op, &mut io)));
    let ok = r.is_some();
    let mut o = base_o::<S>();
    let val = |v: Value| if ok { r_val(v) } else { r_panic() };
    let r = match op {
        Op::Offset | Op::Scale | Op::Add | Op::Mul => val(enc_vec(&io.out)),
        Op::ToSigned => val(enc_vec(&io.out_sg)),
        Op::ToFloat => val(enc_vec(&io.out_fl)),
        Op::Equilibrium => {
            o["cn"] = json!(io.nums[0]);
            val(enc_vec(&io.out))
        }
        Op::Map => {
            o["calls"] = enc_vec(&io.c1);
            val(enc_vec(&io.out))
        }
        Op::ZipMap => {
            o["ca"] = enc_vec(&io.c1);
            o["cb"] = enc_vec(&io.c2);
            val(enc_vec(&io.out))
        }
        Op::FromFn => {
            o["calls"] = Value::Array(io.idxs.iter().map(|&i| idx_json(i)).collect());
            val(enc_vec(&io.out))
        }
        Op::FromSamples => {
            o["consumed"] = json!(io.nums[0]);
            o["rest"] = enc_vec(&io.out2);
            if !ok {
                r_panic()
            } else if io.some {
                r_some(enc_vec(&io.out))
            } else {
                r_none()
            }
        }
        Op::Channels => {
            o["lens"] = json!(io.idxs);
            o["fused"] = json!(io.flag);
            o["refs"] = enc_vec(&io.c1);
            o["rev"] = enc_vec(&io.c2);
            o["rlen"] = json!([io.nums[1], io.nums[2]]);
            o["cn"] = json!(io.nums[0]);
            if ok {
                r_items(enc_vec(&io.out))
            } else {
                r_panic()
            }
        }
        Op::ChannelsMut => {
            o["seen"] = enc_vec(&io.c1);
            val(enc_vec(&io.out))
        }
        Op::Channel => {
            o["m"] = r_opt(io.opt[1].map(|s| s.enc()));
            o["after"] = enc_vec(&io.out);
            o["u"] = Value::Array(io.opt[2].iter().map(|s| s.enc()).collect());
            o["uafter"] = enc_vec(&io.out2);
            if ok {
                r_opt(io.opt[0].map(|s| s.enc()))
            } else {
                r_panic()
            }
        }
        Op::Iter => {
            let it = &io.it;
            o["pre"] = enc_vec(&it.pre);
            o["preb"] = enc_vec(&it.preb);
            o["len"] = json!(it.lens);
            o["sh"] = json!(it.sh);
            o["rest"] = enc_vec(&it.rest);
            o["cnt"] = json!(it.cnt);
            o["clen"] = json!(it.clen);
            o["csh"] = json!(it.csh);
            o["after"] = enc_vec(&it.after);
            o["cn"] = json!(io.nums[0]);
            if ok {
                r_items(enc_vec(&it.items))
            } else {
                r_panic()
            }
        }
    };
    (r, o, h)
}

// ---------------------------------------------------------------------------- slices

/// The sample<->frame slice conversions of dasp_slice exist per literal width (macro-generated
/// impls for 1..=32) and as identity impls for slices of bare samples; this trait gives the generic
/// driver one name for them.  `to` selects the route: to_frame_slice / to_sample_slice / to_boxed_*
/// versus from_sample_slice / from_frame_slice / from_boxed_*.
trait Sl<S: Hx>: Fr<S> {
    fn tf<'a>(s: &'a [S], to: bool) -> Option<&'a [Self]>;
    fn tf_mut<'a>(s: &'a mut [S], to: bool) -> Option<&'a mut [Self]>;
    fn tf_box(s: Box<[S]>, to: bool) -> Option<Box<[Self]>>;
    fn ts<'a>(f: &'a [Self], to: bool) -> &'a [S];
    fn ts_mut<'a>(f: &'a mut [Self], to: bool) -> &'a mut [S];
    fn ts_box(f: Box<[Self]>, to: bool) -> Box<[S]>;
}
macro_rules! sl_body { ($S:ty, $F:ty) => {
    fn tf<'a>(s: &'a [$S], to: bool) -> Option<&'a [$F]> {
        if to { dasp_slice::to_frame_slice::<&'a [$S], $F>(s) } else { dasp_slice::from_sample_slice::<&'a [$F], $S>(s) }
    }
    fn tf_mut<'a>(s: &'a mut [$S], to: bool) -> Option<&'a mut [$F]> {
        if to { dasp_slice::to_frame_slice_mut::<&'a mut [$S], $F>(s) } else { dasp_slice::from_sample_slice_mut::<&'a mut [$F], $S>(s) }
    }
    fn tf_box(s: Box<[$S]>, to: bool) -> Option<Box<[$F]>> {
        if to { dasp_slice::to_boxed_frame_slice::<Box<[$S]>, $F>(s) } else { dasp_slice::from_boxed_sample_slice::<Box<[$F]>, $S>(s) }
    }
    fn ts<'a>(f: &'a [$F], to: bool) -> &'a [$S] {
        if to { dasp_slice::to_sample_slice::<&'a [$F], $S>(f) } else { dasp_slice::from_frame_slice::<&'a [$S], $F>(f) }
    }
    fn ts_mut<'a>(f: &'a mut [$F], to: bool) -> &'a mut [$S] {
        if to { dasp_slice::to_sample_slice_mut::<&'a mut [$F], $S>(f) } else { dasp_slice::from_frame_slice_mut::<&'a mut [$S], $F>(f) }
    }
    fn ts_box(f: Box<[$F]>, to: bool) -> Box<[$S]> {
        if to { dasp_slice::to_boxed_sample_slice::<Box<[$F]>, $S>(f) } else { dasp_slice::from_boxed_frame_slice::<Box<[$S]>, $F>(f) }
    }
} }
macro_rules! sl_arrays { ($($N:literal)*) => {$( impl<S: Hx> Sl<S> for [S; $N] { sl_body!(S, [S; $N]); } )*} }
sl_arrays!(1 2 3 4 5 6 7 8 9 10 11 12 13 14 15 16 17 18 19 20 21 22 23 24 25 26 27 28 29 30 31 32);
macro_rules! sl_bare { ($($T:ty),*) => {$( impl Sl<$T> for $T { sl_body!($T, $T); } )*} }
sl_bare!(i8, i16, I24, i32, I48, i64, u8, u16, U24, u32, U48, u64, f32, f64);
per_format!(m_i8: i8, m_i16: i16, m_i24: I24, m_i32: i32, m_i48: I48, m_i64: i64, m_u8: u8, m_u16: u16, m_u24: U24, m_u32: u32,
            m_u48: U48, m_u64: u64, m_f32: f32, m_f64: f64);

#[derive(Clone, Copy, PartialEq, Debug)]
enum SOp {
    ToFrames,
    ToSamples,
    Equilibrium,
    Map,
    ZipMap,
    Write,
    Add,
    AddAmp,
}
#[derive(Clone, Copy, PartialEq, Debug)]
enum Kind {
    Shared,
    Mut,
    Boxed,
}
/// Plain inputs / outputs of one slice call; slices of frames travel flattened.
struct SliceIo<S: Sample> {
    nn: usize,
    kind: Kind,
    to: bool,
    x: Vec<S>,
    w: Vec<S>,
    xb: Vec<S>,
    xbs: Vec<Sg<S>>,
    ys: Vec<S>,
    ampf: Vec<Afl<S>>,
    // outputs
    ret: u8, // 0 = panic, 1 = none, 2 = some / value / unit
    len: usize,
    view: Vec<S>,
    same: bool,
    after: Vec<S>,
    back_ret: u8, // 0 = panic, 1 = not attempted, 2 = value
    back_len: usize,
    back_same: bool,
    back: Vec<S>,
    back_h: [i64; 3],
    ca: Vec<S>,
    cb: Vec<S>,
    h: [i64; 3],
    live: i64,
    bytes: usize,
}
#[inline(never)]
fn build_frames<S: Hx, F: Fr<S>>(flat: &[S], nn: usize) -> Vec<F> {
    flat.chunks_exact(nn).map(|c| F::build(c)).collect()
}
#[inline(never)]
fn dump_frames<S: Hx, F: Fr<S>>(fs: &[F], out: &mut Vec<S>) {
    for f in fs {
        f.dump(out);
    }
}

/// The part instantiated per (format, width): calls dasp_slice on slices of F.
#[inline(always)]
fn slice_raw<S, F>(op: SOp, io: &mut SliceIo<S>)
where
    S: Hx,
    Sg<S>: Hx,
    Fl<S>: Hx,
    Afl<S>: Hx,
    F: Sl<S>,
    F::Signed: Fr<Sg<S>>,
    <F::Signed as Frame>::Float: Fr<Afl<S>>,
{
    let nn = io.nn;
    let to = io.to;
    match op {
        SOp::ToFrames => {
            io.bytes = std::mem::size_of_val(&io.x[..]);
            match io.kind {
                Kind::Shared => {
                    let p0 = io.x.as_ptr();
                    let x = &io.x;
                    let (res, h, dl) = measured_l(|| catch_l(|| F::tf(&x[..], to)));
                    io.h = h;
                    io.live = dl;
                    match res {
                        None => io.ret = 0,
                        Some(None) => io.ret = 1,
                        Some(Some(fs)) => {
                            io.ret = 2;
                            io.len = fs.len();
                            io.same = fs.as_ptr() as *const S == p0;
                            dump_frames(fs, &mut io.view);
                            let (b, bh, _) = measured_l(|| catch_l(|| F::ts(fs, to)));
                            io.back_h = bh;
                            match b {
                                None => io.back_ret = 0,
                                Some(s) => {
                                    io.back_ret = 2;
                                    io.back_len = s.len();
                                    io.back_same = s.as_ptr() == p0;
                                    io.back.extend_from_slice(s);
                                }
                            }
                        }
                    }
                    io.after.extend_from_slice(&io.x);
                }
                Kind::Mut => {
                    let mut xm = io.x.clone();
                    let p0 = xm.as_ptr();
                    let (res, h, dl) = measured_l(|| catch_l(|| F::tf_mut(&mut xm[..], to)));
                    io.h = h;
                    io.live = dl;
                    match res {
                        None => io.ret = 0,
                        Some(None) => io.ret = 1,
                        Some(Some(fs)) => {
                            io.ret = 2;
                            io.len = fs.len();
                            io.same = fs.as_ptr() as *const S == p0;
                            dump_frames(fs, &mut io.view);
                            // write w through the frame view: frame i, channel c <- w[i*n + c]
                            for (i, f) in fs.iter_mut().enumerate() {
                                if (i + 1) * nn <= io.w.len() {
                                    *f = F::build(&io.w[i * nn..(i + 1) * nn]);
                                }
                            }
                            let (b, bh, _) = measured_l(|| catch_l(|| F::ts_mut(fs, to)));
                            io.back_h = bh;
                            match b {
                                None => io.back_ret = 0,
                                Some(s) => {
                                    io.back_ret = 2;
                                    io.back_len = s.len();
                                    io.back_same = s.as_ptr() == p0;
                                    io.back.extend_from_slice(s);
                                }
                            }
                        }
                    }
                    io.after.extend_from_slice(&xm);
                }
                Kind::Boxed => {
                    let b: Box<[S]> = io.x.clone().into_boxed_slice();
                    let p0 = b.as_ptr();
                    let (res, h, dl) = measured_l(|| catch_l(move || F::tf_box(b, to)));
                    io.h = h;
                    io.live = dl;
                    match res {
                        None => io.ret = 0,
                        Some(None) => io.ret = 1,
                        Some(Some(fb)) => {
                            io.ret = 2;
                            io.len = fb.len();
                            io.same = fb.as_ptr() as *const S == p0;
                            dump_frames(&fb, &mut io.view);
                            let (bk, bh, _) = measured_l(|| catch_l(move || F::ts_box(fb, to)));
                            io.back_h = bh;
                            match bk {
                                None => io.back_ret = 0,
                                Some(s) => {
                                    io.back_ret = 2;
                                    io.back_len = s.len();
                                    io.back_same = s.as_ptr() == p0;
                                    io.back.extend_from_slice(&s);
                                }
                            }
                        }
                    }
                }
            }
        }
        SOp::ToSamples => {
            let xf: Vec<F> = build_frames(&io.x, nn);
            io.bytes = std::mem::size_of_val(&xf[..]);
            match io.kind {
                Kind::Shared => {
                    let p0 = xf.as_ptr() as *const S;
                    let (res, h, dl) = measured_l(|| catch_l(|| F::ts(&xf[..], to)));
                    io.h = h;
                    io.live = dl;
                    if let Some(s) = res {
                        io.ret = 2;
                        io.len = s.len();
                        io.same = s.as_ptr() == p0;
                        io.view.extend_from_slice(s);
                    }
                    dump_frames(&xf, &mut io.after);
                }
                Kind::Mut => {
                    let mut xm = xf.clone();
                    let p0 = xm.as_ptr() as *const S;
                    let (res, h, dl) = measured_l(|| catch_l(|| F::ts_mut(&mut xm[..], to)));
                    io.h = h;
                    io.live = dl;
                    if let Some(s) = res {
                        io.ret = 2;
                        io.len = s.len();
                        io.same = s.as_ptr() == p0;
                        io.view.extend_from_slice(s);
                        for (k, c) in s.iter_mut().enumerate() {
                            if k < io.w.len() {
                                *c = io.w[k];
                            }
                        }
                    }
                    dump_frames(&xm, &mut io.after);
                }
                Kind::Boxed => {
                    let fb: Box<[F]> = xf.into_boxed_slice();
                    let p0 = fb.as_ptr() as *const S;
                    let (res, h, dl) = measured_l(|| catch_l(move || F::ts_box(fb, to)));
                    io.h = h;
                    io.live = dl;
                    if let Some(s) = res {
                        io.ret = 2;
                        io.len = s.len();
                        io.same = s.as_ptr() == p0;
                        io.view.extend_from_slice(&s);
                    }
                }
            }
        }
        _ => {
            let mut va: Vec<F> = build_frames(&io.x, nn);
            let vb: Vec<F> = build_frames(&io.xb, nn);
            let vbs: Vec<F::Signed> = build_frames(&io.xbs, nn);
            let ys: Vec<F> = build_frames(&io.ys, nn);
            let cap = va.len() + 8;
            let mut ca: Vec<F> = Vec::with_capacity(cap);
            let mut cb: Vec<F> = Vec::with_capacity(cap);
            let amp = if op == SOp::AddAmp {
                Some(<<F::Signed as Frame>::Float as Fr<Afl<S>>>::build(&io.ampf))
            } else {
                None
            };
            let mut k = 0usize;
            let (r, h, dl) = measured_l(|| {
                catch_l(|| match op {
                    SOp::Equilibrium => dasp_slice::equilibrium(&mut va[..]),
                    SOp::Map => dasp_slice::map_in_place(&mut va[..], |f| {
                        if ca.len() < cap {
                            ca.push(f);
                        }
                        k += 1;
                        if ys.is_empty() {
                            f
                        } else {
                            ys[(k - 1) % ys.len()]
                        }
                    }),
                    SOp::ZipMap => dasp_slice::zip_map_in_place(&mut va[..], &vb[..], |p, q| {
                        if ca.len() < cap {
                            ca.push(p);
                            cb.push(q);
                        }
                        k += 1;
                        if ys.is_empty() {
                            p
                        } else {
                            ys[(k - 1) % ys.len()]
                        }
                    }),
                    SOp::Write => dasp_slice::write(&mut va[..], &vb[..]),
                    SOp::Add => dasp_slice::add_in_place(&mut va[..], &vbs[..]),
                    SOp::AddAmp => dasp_slice::add_in_place_with_amp_per_channel(&mut va[..], &vbs[..], amp.unwrap()),
                    _ => unreachable!(),
                })
            });
            io.h = h;
            io.live = dl;
            io.ret = if r.is_some() { 2 } else { 0 };
            dump_frames(&va, &mut io.after);
            dump_frames(&ca, &mut io.ca);
            dump_frames(&cb, &mut io.cb);
        }
    }
}

fn slice_event<S>(ev: &str, a: &Value, n: usize) -> Rec
where
    S: Hx + Picks,
    Sg<S>: Hx,
    Fl<S>: Hx,
    Afl<S>: Hx,
{
    let nn = n.max(1);
    let opname = a["op"].as_str().unwrap_or("");
    let op = match (ev, opname) {
        ("to_frames", _) => SOp::ToFrames,
        ("to_samples", _) => SOp::ToSamples,
        ("inplace", "equilibrium") => SOp::Equilibrium,
        ("inplace", "map") => SOp::Map,
        ("inplace", "zip_map") => SOp::ZipMap,
        ("inplace", "write") => SOp::Write,
        ("inplace", "add") => SOp::Add,
        ("inplace", "add_amp") => SOp::AddAmp,
        _ => panic!("harness: unknown slice event {} {}", ev, opname),
    };
    let signed_b = op == SOp::Add || op == SOp::AddAmp;
    let mut io: SliceIo<S> = SliceIo {
        nn,
        kind: match a["kind"].as_str() {
            Some("mut") => Kind::Mut,
            Some("boxed") => Kind::Boxed,
            _ => Kind::Shared,
        },
        to: a["route"].as_str() != Some("from"),
        x: match op {
            SOp::ToFrames => dec_vec(&a["x"]),
            SOp::ToSamples => flat_frames(&a["x"]),
            _ => flat_frames(&a["xa"]),
        },
        w: dec_vec(&a["w"]),
        xb: if signed_b { Vec::new() } else { flat_frames(&a["xb"]) },
        xbs: if signed_b { flat_frames(&a["xb"]) } else { Vec::new() },
        ys: flat_frames(&a["ys"]),
        ampf: dec_vec(&a["ampf"]),
        ret: 0,
        len: 0,
        view: Vec::new(),
        same: false,
        after: Vec::new(),
        back_ret: 1,
        back_len: 0,
        back_same: false,
        back: Vec::new(),
        back_h: [0; 3],
        ca: Vec::new(),
        cb: Vec::new(),
        h: [0; 3],
        live: 0,
        bytes: 0,
    };
    let cells = io.x.len() + 8;
    io.view.reserve(cells);
    io.after.reserve(cells);
    io.back.reserve(cells);
    io.ca.reserve(cells);
    io.cb.reserve(cells);
    let f: fn(SOp, &mut SliceIo<S>) = S::pick_slice(n);
    f(op, &mut io);
    let mut o = base_o::<S>();
    let r = match op {
        SOp::ToFrames => {
            o["flen"] = json!(io.len);
            o["frames"] = frames_json(&io.view, nn);
            o["same_ptr"] = json!(io.same);
            o["after"] = enc_vec(&io.after);
            let bk = ["panic", "none", "val"][io.back_ret as usize];
            o["back"] = json!({"k": bk, "len": io.back_len,
                               "same_ptr": io.back_same, "v": enc_vec(&io.back), "h": io.back_h});
            o["live"] = json!(io.live);
            o["bytes"] = json!(io.bytes);
            match io.ret {
                0 => r_panic(),
                1 => r_none(),
                _ => r_some(json!(io.len)),
            }
        }
        SOp::ToSamples => {
            o["slen"] = json!(io.len);
            o["samples"] = enc_vec(&io.view);
            o["same_ptr"] = json!(io.same);
            o["after"] = frames_json(&io.after, nn);
            o["live"] = json!(io.live);
            o["bytes"] = json!(io.bytes);
            if io.ret == 0 {
                r_panic()
            } else {
                r_val(json!(io.len))
            }
        }
        _ => {
            o["after"] = frames_json(&io.after, nn);
            o["ca"] = frames_json(&io.ca, nn);
            o["cb"] = frames_json(&io.cb, nn);
            o["afl"] = json!(<Afl<S> as Hx>::FMT);
            if io.ret == 0 {
                r_panic()
            } else {
                r_unit()
            }
        }
    };
    (r, o, io.h)
}

// ---------------------------------------------------------------------------- dispatch over the 14 formats

macro_rules! by_format {
    ($fmt:expr, $func:ident, $($arg:expr),*) => {
        match $fmt {
            "i8" => $func::<i8>($($arg),*),
            "i16" => $func::<i16>($($arg),*),
            "i24" => $func::<I24>($($arg),*),
            "i32" => $func::<i32>($($arg),*),
            "i48" => $func::<I48>($($arg),*),
            "i64" => $func::<i64>($($arg),*),
            "u8" => $func::<u8>($($arg),*),
            "u16" => $func::<u16>($($arg),*),
            "u24" => $func::<U24>($($arg),*),
            "u32" => $func::<u32>($($arg),*),
            "u48" => $func::<U48>($($arg),*),
            "u64" => $func::<u64>($($arg),*),
            "f32" => $func::<f32>($($arg),*),
            "f64" => $func::<f64>($($arg),*),
            f => panic!("harness: unknown format {}", f),
        }
    };
}

fn exec(out: &mut Out, ex: &[Value], only: &str) {
    let reset = &ex[0];
    let comp = reset["comp"].as_str().unwrap_or("frame");
    if !only.is_empty() && only != comp {
        return;
    }
    out.line(&json!({"ev": "reset", "comp": comp, "cfg": reset["cfg"], "r": r_unit(), "o": {"ok": true, "debug": cfg!(debug_assertions)}}));
    for op in &ex[1..] {
        let ev = op["ev"].as_str().unwrap();
        let a = &op["a"];
        let fmt = a["fmt"].as_str().unwrap();
        let n = a["n"].as_u64().unwrap_or(0) as usize;
        let (r, o, h) = if ev.starts_with("s_") {
            by_format!(fmt, sample_event, ev, a)
        } else if ev.starts_with("f_") {
            by_format!(fmt, frame_event, ev, a, n)
        } else {
            by_format!(fmt, slice_event, ev, a, n)
        };
        out.ev(ev, a.clone(), r, o, h);
    }
}

// ---------------------------------------------------------------------------- seeded stimuli (no dasp code involved)

#[derive(Clone, Copy)]
struct Fm {
    name: &'static str,
    bits: u32,
    signed: bool,
    float: bool,
    sg: &'static str, // the format offsets are given in  (the property's table; the code's table is logged, not trusted)
    fl: &'static str, // the format gains are given in
}
const FMTS: [Fm; 14] = [
    Fm { name: "i8", bits: 8, signed: true, float: false, sg: "i8", fl: "f32" },
    Fm { name: "i16", bits: 16, signed: true, float: false, sg: "i16", fl: "f32" },
    Fm { name: "i24", bits: 24, signed: true, float: false, sg: "i24", fl: "f32" },
    Fm { name: "i32", bits: 32, signed: true, float: false, sg: "i32", fl: "f32" },
    Fm { name: "i48", bits: 48, signed: true, float: false, sg: "i48", fl: "f64" },
    Fm { name: "i64", bits: 64, signed: true, float: false, sg: "i64", fl: "f64" },
    Fm { name: "u8", bits: 8, signed: false, float: false, sg: "i8", fl: "f32" },
    Fm { name: "u16", bits: 16, signed: false, float: false, sg: "i16", fl: "f32" },
    Fm { name: "u24", bits: 24, signed: false, float: false, sg: "i32", fl: "f32" },
    Fm { name: "u32", bits: 32, signed: false, float: false, sg: "i32", fl: "f32" },
    Fm { name: "u48", bits: 48, signed: false, float: false, sg: "i64", fl: "f64" },
    Fm { name: "u64", bits: 64, signed: false, float: false, sg: "i64", fl: "f64" },
    Fm { name: "f32", bits: 32, signed: true, float: true, sg: "f32", fl: "f32" },
    Fm { name: "f64", bits: 64, signed: true, float: true, sg: "f64", fl: "f64" },
];
fn fm(name: &str) -> Fm {
    *FMTS.iter().find(|f| f.name == name).unwrap()
}
impl Fm {
    fn half(&self) -> i128 {
        1i128 << (self.bits - 1)
    }
    fn eq(&self) -> i128 {
        if self.signed {
            0
        } else {
            self.half()
        }
    }
    /// signed amplitude range about equilibrium: [-half, half-1]
    fn amp_to_val(&self, amp: i128) -> Value {
        big(amp + self.eq())
    }
}
/// A stimulus sample: integer formats as the signed amplitude about equilibrium, floats as f64 (exactly representable in the format).
#[derive(Clone, Copy)]
enum V {
    I(i128),
    F(f64),
}
fn vj(f: &Fm, v: V) -> Value {
    match v {
        V::I(a) => f.amp_to_val(a),
        V::F(x) => {
            if f.bits == 32 {
                f32f(x as f32)
            } else {
                f64f(x)
            }
        }
    }
}
fn vjs(f: &Fm, vs: &[V]) -> Value {
    Value::Array(vs.iter().map(|v| vj(f, *v)).collect())
}
fn vframes(f: &Fm, vs: &[V], n: usize) -> Value {
    Value::Array(vs.chunks(n).map(|c| vjs(f, c)).collect())
}
fn rand_float(rng: &mut Rng, f: &Fm, max_mag: f64) -> f64 {
    // sign, exponent spread over 2^-40 .. max_mag, full random significand; sometimes special values
    let k = rng.below(40);
    let x = match k {
        0 => 0.0,
        1 => -0.0,
        2 => -1.0,
        3 => 0.5,
        4 => {
            if f.bits == 32 {
                f32::from_bits(rng.below(1 << 23) as u32) as f64
            } else {
                f64::from_bits(rng.below(1 << 52))
            }
        } // subnormal
        _ => {
            let wide = rng.chance(1, 4);
            let e = -(rng.below(if wide { 40 } else { 6 }) as i32);
            let m = 1.0 + (rng.next() >> 11) as f64 / (1u64 << 53) as f64;
            let s = if rng.chance(1, 2) { -1.0 } else { 1.0 };
            s * m * 2f64.powi(e - 1) * max_mag
        }
    };
    if f.bits == 32 {
        (x as f32) as f64
    } else {
        x
    }
}
/// random signed amplitude of an integer format inside [lo, hi] (both inside the format's range)
fn rand_amp_in(rng: &mut Rng, lo: i128, hi: i128) -> i128 {
    if lo >= hi {
        return lo;
    }
    let span = (hi - lo) as u128;
    let r = ((rng.next() as u128) << 64 | rng.next() as u128) % (span + 1);
    match rng.below(10) {
        0 => lo,
        1 => hi,
        2 => lo + (r % 4.min(span + 1)) as i128,
        3 => hi - (r % 4.min(span + 1)) as i128,
        4 | 5 => {
            // small magnitude when zero is inside
            if lo <= 0 && hi >= 0 {
                let m = (r % 1000) as i128 - 500;
                m.clamp(lo, hi)
            } else {
                lo + r as i128
            }
        }
        _ => lo + r as i128,
    }
}
fn rand_sample(rng: &mut Rng, f: &Fm) -> V {
    if f.float {
        let x = rand_float(rng, f, 1.0);
        V::F(if x >= 1.0 { 0.999 } else { x })
    } else {
        V::I(rand_amp_in(rng, -f.half(), f.half() - 1))
    }
}
/// An EXTREME value of the format: MAX - d or MIN + d for a distance d around the float precision of the format's Float
/// companion (0..3, 2^k - 1 | 2^k | 2^k + 1 about bits - p - 2, anything up to four times that); floats: +-largest finite,
/// +-largest below 1.0, +-1.0.  The identity operations (gain 1.0, offset 0) are driven on these.
fn edge_sample(rng: &mut Rng, f: &Fm) -> V {
    if f.float {
        let (max, below1) = if f.bits == 32 { (f32::MAX as f64, (1.0f32 - f32::EPSILON / 2.0) as f64) } else { (f64::MAX, 1.0 - f64::EPSILON / 2.0) };
        let x = *rng.pick(&[max, max, below1, 1.0]);
        return V::F(if rng.chance(1, 2) { -x } else { x });
    }
    let p = if f.fl == "f32" { 24 } else { 53 };
    let slack: i128 = if f.bits > p { 1i128 << (f.bits - p - 2) } else { 0 };
    let d: i128 = match rng.below(8) {
        0 => 0,
        1 => rng.below(4) as i128,
        2 => (slack - 1).max(0),
        3 => slack,
        4 => slack + 1,
        5 => 3 * slack - 1 + rng.below(3) as i128,
        6 => (1i128 << rng.below(12)).min(f.half() - 1),
        _ => rng.below(4 * slack as u64 + 4) as i128,
    }
    .clamp(0, f.half() - 1);
    V::I(if rng.chance(2, 3) { f.half() - 1 - d } else { -f.half() + d })
}
/// a frame (or slice) of n samples, extreme ones with probability 3/4, the first always
fn edge_samples(rng: &mut Rng, f: &Fm, n: usize) -> Vec<V> {
    (0..n).map(|k| if k == 0 || rng.chance(3, 4) { edge_sample(rng, f) } else { rand_sample(rng, f) }).collect()
}
/// LANDING (round 5): an amplitude a of the integer format f and an offset d (in units of f, representable in f's Signed
/// format) whose exact sum is the target t -- used with t = MIN, MIN + 1, MAX, MAX - 1: the in-range results that sit on
/// the edge of the format, where a build without overflow checks decides between "in range" and "wrap around".
fn land(rng: &mut Rng, f: &Fm, t: i128) -> (i128, i128) {
    let s = fm(f.sg);
    let shift = s.bits - f.bits;
    let lo = ((-s.half()) >> shift).max(t - (f.half() - 1));
    let hi = ((s.half() - 1) >> shift).min(t + f.half());
    let d = rand_amp_in(rng, lo, hi);
    (t - d, d)
}
fn land_target(rng: &mut Rng, f: &Fm, first: bool) -> i128 {
    let h = f.half();
    if first {
        return -h;
    }
    *rng.pick(&[-h, -h, -h + 1, h - 1, h - 1, h - 2])
}
fn land_pairs(rng: &mut Rng, f: &Fm, m: usize) -> (Vec<V>, Vec<V>) {
    let pairs: Vec<(i128, i128)> = (0..m)
        .map(|c| {
            let t = land_target(rng, f, c == 0);
            land(rng, f, t)
        })
        .collect();
    (pairs.iter().map(|p| V::I(p.0)).collect(), pairs.iter().map(|p| V::I(img(f, p.1))).collect())
}
fn zero_of(rng: &mut Rng, f: &Fm) -> V {
    if f.float {
        V::F(if rng.chance(1, 2) { -0.0 } else { 0.0 })
    } else {
        V::I(0)
    }
}
/// image of an amplitude of f in f's Signed format
fn img(f: &Fm, a: i128) -> i128 {
    a << (fm(f.sg).bits - f.bits)
}
/// offset (in the Signed format) that keeps every channel's sum representable
/// `plain` excludes the special amplitudes (zero offsets; gains 0.0, -0.0, +-1.0 and tiny ones), so that the one
/// repetition the quick tier affords per (format, width) cannot happen to be an identity
fn rand_offset(rng: &mut Rng, f: &Fm, xs: &[V], plain: bool) -> V {
    for _ in 0..50 {
        let v = rand_offset_any(rng, f, xs, plain);
        let zero = match v {
            V::I(a) => a == 0,
            V::F(x) => x == 0.0 || x.abs() < 1e-6,
        };
        if !plain || !zero {
            return v;
        }
    }
    rand_offset_any(rng, f, xs, plain)
}
fn rand_gain(rng: &mut Rng, f: &Fm, xs: &[V], plain: bool) -> V {
    for _ in 0..50 {
        let v = rand_gain_any(rng, f, xs, plain);
        if let V::F(g) = v {
            if !plain || (g != 0.0 && g.abs() != 1.0 && g.abs() > 1e-6) {
                return v;
            }
        }
    }
    V::F(0.375)
}
fn rand_offset_any(rng: &mut Rng, f: &Fm, xs: &[V], plain: bool) -> V {
    let s = fm(f.sg);
    if f.float {
        return V::F(rand_float(rng, &s, 2.0));
    }
    let (mut lo, mut hi) = (-s.half(), s.half() - 1);
    for x in xs {
        if let V::I(a) = x {
            lo = lo.max(-s.half() - img(f, *a));
            hi = hi.min(s.half() - 1 - img(f, *a));
        }
    }
    V::I(if !plain && rng.chance(1, 12) { 0 } else { rand_amp_in(rng, lo, hi) })
}
/// gain (in the Float format) that keeps |x * g| < 1 for every channel
fn rand_gain_any(rng: &mut Rng, f: &Fm, xs: &[V], plain: bool) -> V {
    let fl = fm(f.fl);
    if f.float {
        return V::F(rand_float(rng, &fl, 2.0));
    }
    let mut m: f64 = 0.0;
    for x in xs {
        if let V::I(a) = x {
            m = m.max((*a as f64 / f.half() as f64).abs());
        }
    }
    let g = match if plain { 3 + rng.below(9) } else { rng.below(12) } {
        0 => 0.0,
        1 => 1.0,
        2 => -0.0,
        3 | 4 if m > 0.0 && m < 0.9 => {
            let lim = (0.98 / m).min(8.0);
            let g = rand_float(rng, &fl, 1.0) * lim;
            if (g * m).abs() < 0.99 {
                g
            } else {
                0.5
            }
        }
        _ => {
            let g = rand_float(rng, &fl, 1.0);
            if g.abs() >= 1.0 {
                0.75
            } else {
                g
            }
        }
    };
    // (the gain 1.0 is an identity the specification claims on EVERY value, the top ones included: no exception here)
    V::F(if fl.bits == 32 { (g as f32) as f64 } else { g })
}

fn gen(seed: u64, size: &str, path: &str) {
    let mut rng = Rng::new(seed ^ 0xf4a3e);
    let thorough = size == "thorough";
    let reps = if thorough { 12 } else { 2 };
    let sample_reps = if thorough { 1500 } else { 40 };
    let iter_reps = if thorough { 4 } else { 1 };
    let edge_sample_reps = if thorough { 400 } else { 24 };
    let edge_reps = if thorough { 4 } else { 1 };
    let mut execs: Vec<Vec<Value>> = Vec::new();
    let mut late: Vec<Vec<Value>> = Vec::new(); // executions placed at the end of the file
    let reset = |comp: &str, f: &Fm, n: usize, tag: &str| json!({"ev":"reset","comp":comp,"cfg":{"src":"rand","fmt":f.name,"n":n,"tag":tag}});
    // HX_PART=frame|slice restricts the file to one property's stimuli (default: both)
    let part = std::env::var("HX_PART").unwrap_or_default();
    let frames_wanted = part.is_empty() || part == "frame";
    let slices_wanted = part.is_empty() || part == "slice";
    let none: [Fm; 0] = [];
    let frame_fmts: &[Fm] = if frames_wanted { &FMTS } else { &none };
    let slice_fmts: &[Fm] = if slices_wanted { &FMTS } else { &none };

    // ---- C03: samples
    for f in frame_fmts.iter() {
        let (sg, fl) = (fm(f.sg), fm(f.fl));
        let mut ex = vec![reset("frame", f, 0, "samples")];
        ex.push(json!({"ev":"s_consts","a":{"fmt":f.name}}));
        for _ in 0..sample_reps {
            let s = rand_sample(&mut rng, f);
            let off = rand_offset(&mut rng, f, &[s], false);
            let g = rand_gain(&mut rng, f, &[s], false);
            ex.push(json!({"ev":"s_add_amp","a":{"fmt":f.name,"s":vj(f,s),"amp":vj(&sg,off)}}));
            ex.push(json!({"ev":"s_mul_amp","a":{"fmt":f.name,"s":vj(f,s),"amp":vj(&fl,g)}}));
            ex.push(json!({"ev":"s_to_signed","a":{"fmt":f.name,"s":vj(f,s)}}));
            ex.push(json!({"ev":"s_to_float","a":{"fmt":f.name,"s":vj(f,s)}}));
        }
        execs.push(ex);
        // the identities on the extreme values of the format: gain exactly 1.0, offset exactly 0, the companion conversions
        let mut ex = vec![reset("frame", f, 0, "edge_samples")];
        for _ in 0..edge_sample_reps {
            let s = edge_sample(&mut rng, f);
            let z = zero_of(&mut rng, &sg);
            ex.push(json!({"ev":"s_mul_amp","a":{"fmt":f.name,"s":vj(f,s),"amp":vj(&fl,V::F(1.0))}}));
            ex.push(json!({"ev":"s_add_amp","a":{"fmt":f.name,"s":vj(f,s),"amp":vj(&sg,z)}}));
            ex.push(json!({"ev":"s_to_signed","a":{"fmt":f.name,"s":vj(f,s)}}));
            ex.push(json!({"ev":"s_to_float","a":{"fmt":f.name,"s":vj(f,s)}}));
            if !f.float {
                // an offset whose exact result is MIN / MIN + 1 / MAX / MAX - 1 of the format
                let t = land_target(&mut rng, f, false);
                let (a, d) = land(&mut rng, f, t);
                ex.push(json!({"ev":"s_add_amp","a":{"fmt":f.name,"s":vj(f,V::I(a)),"amp":vj(&sg,V::I(img(f,d)))}}));
            }
        }
        execs.push(ex);
    }
    // ---- C03: frames, every width on every format (n = 0: the bare sample)
    for f in frame_fmts.iter() {
        let (sg, fl) = (fm(f.sg), fm(f.fl));
        for n in 0..=32usize {
            let nn = n.max(1);
            let mut ex = vec![reset("frame", f, n, "frames")];
            let frame = |rng: &mut Rng| -> Vec<V> { (0..nn).map(|_| rand_sample(rng, f)).collect() };
            for rep in 0..reps {
                let plain = rep == 0; // the first repetition never uses an identity amplitude
                let x = frame(&mut rng);
                let off = rand_offset(&mut rng, f, &x, plain);
                ex.push(json!({"ev":"f_offset","a":{"fmt":f.name,"n":n,"x":vjs(f,&x),"amp":vj(&sg,off)}}));
                let x = frame(&mut rng);
                let g = rand_gain(&mut rng, f, &x, plain);
                ex.push(json!({"ev":"f_scale","a":{"fmt":f.name,"n":n,"x":vjs(f,&x),"amp":vj(&fl,g)}}));
                let x = frame(&mut rng);
                let y: Vec<V> = x.iter().map(|s| rand_offset(&mut rng, f, &[*s], plain)).collect();
                ex.push(json!({"ev":"f_add","a":{"fmt":f.name,"n":n,"x":vjs(f,&x),"y":vjs(&sg,&y)}}));
                let x = frame(&mut rng);
                let y: Vec<V> = x.iter().map(|s| rand_gain(&mut rng, f, &[*s], plain)).collect();
                ex.push(json!({"ev":"f_mul","a":{"fmt":f.name,"n":n,"x":vjs(f,&x),"y":vjs(&fl,&y)}}));
                let x = frame(&mut rng);
                ex.push(json!({"ev":"f_to_signed","a":{"fmt":f.name,"n":n,"x":vjs(f,&x)}}));
                let x = frame(&mut rng);
                ex.push(json!({"ev":"f_to_float","a":{"fmt":f.name,"n":n,"x":vjs(f,&x)}}));
                ex.push(json!({"ev":"f_equilibrium","a":{"fmt":f.name,"n":n}}));
                let (x, ys) = (frame(&mut rng), frame(&mut rng));
                ex.push(json!({"ev":"f_map","a":{"fmt":f.name,"n":n,"x":vjs(f,&x),"ys":vjs(f,&ys)}}));
                let (x, y, ys) = (frame(&mut rng), frame(&mut rng), frame(&mut rng));
                ex.push(json!({"ev":"f_zip_map","a":{"fmt":f.name,"n":n,"x":vjs(f,&x),"y":vjs(f,&y),"ys":vjs(f,&ys)}}));
                let ys = frame(&mut rng);
                ex.push(json!({"ev":"f_from_fn","a":{"fmt":f.name,"n":n,"ys":vjs(f,&ys)}}));
                let x = frame(&mut rng);
                ex.push(json!({"ev":"f_channels","a":{"fmt":f.name,"n":n,"x":vjs(f,&x)}}));
                let (x, ys) = (frame(&mut rng), frame(&mut rng));
                ex.push(json!({"ev":"f_channels_mut","a":{"fmt":f.name,"n":n,"x":vjs(f,&x),"ys":vjs(f,&ys)}}));
                let x = frame(&mut rng);
                for i in [rng.below(nn as u64) as i64, nn as i64 - 1, nn as i64, nn as i64 + 1 + rng.below(100) as i64, -1] {
                    ex.push(json!({"ev":"f_channel","a":{"fmt":f.name,"n":n,"x":vjs(f,&x),"i":i,"v":vj(f,rand_sample(&mut rng,f))}}));
                }
            }
            // the identity operations on frames of extreme values: scale by 1.0, multiply by the all-ones frame, offset by 0,
            // add the zero frame
            for _ in 0..edge_reps {
                let ones: Vec<V> = vec![V::F(1.0); nn];
                let x = edge_samples(&mut rng, f, nn);
                ex.push(json!({"ev":"f_scale","a":{"fmt":f.name,"n":n,"x":vjs(f,&x),"amp":vj(&fl,V::F(1.0))}}));
                let x = edge_samples(&mut rng, f, nn);
                ex.push(json!({"ev":"f_mul","a":{"fmt":f.name,"n":n,"x":vjs(f,&x),"y":vjs(&fl,&ones)}}));
                let x = edge_samples(&mut rng, f, nn);
                ex.push(json!({"ev":"f_offset","a":{"fmt":f.name,"n":n,"x":vjs(f,&x),"amp":vj(&sg,zero_of(&mut rng,&sg))}}));
                let x = edge_samples(&mut rng, f, nn);
                let z: Vec<V> = (0..nn).map(|_| zero_of(&mut rng, &sg)).collect();
                ex.push(json!({"ev":"f_add","a":{"fmt":f.name,"n":n,"x":vjs(f,&x),"y":vjs(&sg,&z)}}));
                if !f.float {
                    // landing on the edge of the format: per-channel offsets (the first channel lands on MIN exactly), and
                    // one offset for all channels from values just inside the bottom / the top of the range
                    let (x, y) = land_pairs(&mut rng, f, nn);
                    ex.push(json!({"ev":"f_add","a":{"fmt":f.name,"n":n,"x":vjs(f,&x),"y":vjs(&sg,&y)}}));
                    let h = f.half();
                    let shift = sg.bits - f.bits;
                    let low = rng.chance(2, 3);
                    let d = if low { rand_amp_in(&mut rng, ((-sg.half()) >> shift).max(-2 * h + 3), 0) } else { rand_amp_in(&mut rng, 0, ((sg.half() - 1) >> shift).min(2 * h - 3)) };
                    let x: Vec<V> = (0..nn)
                        .map(|c| {
                            let e = if c == 0 { 0 } else { rng.below(3) as i128 };
                            V::I(if low { -h + e - d } else { h - 1 - e - d })
                        })
                        .collect();
                    ex.push(json!({"ev":"f_offset","a":{"fmt":f.name,"n":n,"x":vjs(f,&x),"amp":vj(&sg,V::I(img(f,d)))}}));
                }
            }
            // the channel iterators used as iterators: nth / skip / step_by / last / count / collect (and rev / nth_back
            // from channels_ref / channels_mut) on an iterator that has ALREADY been advanced, from both ends where it has two
            for _ in 0..iter_reps {
                for kind in ["val", "ref", "mut"] {
                    let de = kind != "val";
                    let mut push = |rng: &mut Rng, k: usize, kb: usize, op: &str, j: usize| {
                        let x = frame(rng);
                        ex.push(json!({"ev":"f_iter","a":{"fmt":f.name,"n":n,"x":vjs(f,&x),"it":kind,"k":k,"kb":kb,"op":op,"j":j,
                                                           "v":vj(f,rand_sample(rng,f))}}));
                    };
                    // (k, kb): at least one next() first -- k in 1..=N --, then next_back() calls that may or may not fit
                    let adv = |rng: &mut Rng| -> (usize, usize, usize) {
                        let k = 1 + rng.below(nn as u64) as usize;
                        let kb = if de && rng.chance(1, 2) { rng.below((nn - k) as u64 + 2) as usize } else { 0 };
                        (k, kb, nn.saturating_sub(k + kb)) // .2 = how many items are left
                    };
                    let (k, kb, left) = adv(&mut rng);
                    let j = rng.below(left.max(1) as u64) as usize; // inside what is left (when anything is)
                    push(&mut rng, k, kb, "nth", j);
                    let (k, kb, left) = adv(&mut rng);
                    let j = left + rng.below(3) as usize; // just beyond
                    push(&mut rng, k, kb, "nth", j);
                    if !de || thorough {
                        let j = rng.below(nn as u64 + 1) as usize; // fresh iterator
                        push(&mut rng, 0, 0, "nth", j);
                    }
                    let (k, kb, left) = adv(&mut rng);
                    let j = rng.below(left as u64 + 2) as usize;
                    push(&mut rng, k, kb, "skip", j);
                    push(&mut rng, 0, 0, "step_by", 2);
                    let (k, kb, left) = adv(&mut rng);
                    let j = 1 + rng.below(left.clamp(1, 5) as u64) as usize;
                    push(&mut rng, k, kb, "step_by", j);
                    // (channels_ref / channels_mut wrap core's slice iterators: one of the three per repetition)
                    let finals: &[&str] = if de && !thorough { &["last", "count", "collect"][rng.below(3) as usize..][..1] } else { &["last", "count", "collect"] };
                    for op in finals {
                        let (k, kb, _) = adv(&mut rng);
                        push(&mut rng, k, kb, op, 0);
                    }
                    if kind != "mut" {
                        // clone-and-continue: clone an ADVANCED iterator, drain the clone, then the original; cycle() (which
                        // clones) far enough to wrap around at least once; the clone of an exhausted iterator
                        let (k, kb, _) = adv(&mut rng);
                        push(&mut rng, k, kb, "clone", 0);
                        let (k, kb, left) = adv(&mut rng);
                        let j = left + 1 + rng.below(nn as u64 + 1) as usize;
                        push(&mut rng, k, kb, "cycle", j);
                        if !de || thorough {
                            push(&mut rng, nn + 1, 0, "clone", 0);
                        }
                    }
                    if de {
                        let (k, kb, left) = adv(&mut rng);
                        push(&mut rng, k, kb, "rev", 0);
                        let j = rng.below(left as u64 + 2) as usize;
                        push(&mut rng, k, kb, "nth_back", j);
                    }
                }
            }
            // short iterators of EVERY length < N, and some that are long enough
            for m in (0..nn).chain([nn, nn + 1, nn + 3]) {
                let it: Vec<V> = (0..m).map(|_| rand_sample(&mut rng, f)).collect();
                ex.push(json!({"ev":"f_from_samples","a":{"fmt":f.name,"n":n,"it":vjs(f,&it)}}));
            }
            execs.push(ex);
        }
    }
    // ---- C10: views.  every (N, L <= 2N+1) x shared/mut/boxed on i16 and f32, all formats on N in {1,2,3,32} and the bare sample
    // (small executions -- one per (format, N, L, kind) -- so that a rejected event is replayed with little else)
    let kinds = ["shared", "mut", "boxed"];
    for f in slice_fmts.iter() {
        let all_n = f.name == "i16" || f.name == "f32";
        for n in 0..=32usize {
            if !(all_n || [0, 1, 2, 3, 32].contains(&n)) {
                continue;
            }
            let nn = n.max(1);
            // thorough: every length 0..=2N+1; quick: the lengths around the multiples of N (TLC's stimuli hold every length)
            let mut lens: Vec<usize> = if thorough {
                (0..=2 * nn + 1).collect()
            } else {
                let mut v = vec![0, 1, nn - 1, nn, nn + 1, 2 * nn - 1, 2 * nn, 2 * nn + 1, rng.below(2 * nn as u64 + 2) as usize];
                v.sort();
                v.dedup();
                v
            };
            // long slices, divisible and not
            let long = if thorough { 3 } else { 1 };
            for _ in 0..long {
                let fr = rng.range(3, if thorough { 200 } else { 12 }) as usize;
                lens.push(fr * nn);
                if nn > 1 {
                    lens.push(fr * nn + 1 + rng.below(nn as u64 - 1) as usize);
                }
            }
            for l in lens {
                for kind in kinds {
                    let mut ex = vec![reset("slice", f, n, "views")];
                    let routes: Vec<&str> = if thorough || l > 2 * nn + 1 { vec!["to", "from"] } else { vec![*rng.pick(&["to", "from"])] };
                    for route in routes {
                        let x: Vec<V> = (0..l).map(|_| rand_sample(&mut rng, f)).collect();
                        let w: Vec<V> = (0..l).map(|_| rand_sample(&mut rng, f)).collect();
                        ex.push(json!({"ev":"to_frames","a":{"fmt":f.name,"n":n,"len":l,"kind":kind,"route":route,"x":vjs(f,&x),"w":vjs(f,&w)}}));
                    }
                    execs.push(ex);
                }
            }
            for kind in kinds {
                let mut ex = vec![reset("slice", f, n, "views")];
                for m in [0usize, 1, 2, rng.range(3, if thorough { 40 } else { 8 }) as usize] {
                    for route in ["to", "from"] {
                        let x: Vec<V> = (0..m * nn).map(|_| rand_sample(&mut rng, f)).collect();
                        let w: Vec<V> = (0..m * nn).map(|_| rand_sample(&mut rng, f)).collect();
                        ex.push(json!({"ev":"to_samples","a":{"fmt":f.name,"n":n,"len":m,"kind":kind,"route":route,"x":vframes(f,&x,nn),"w":vjs(f,&w)}}));
                    }
                }
                execs.push(ex);
            }
        }
    }
    // ---- C10: in-place operations: every pair of lengths in 0..=4 on the bare sample and widths 1, 2, 3 (thorough: on
    // every chosen width), a diagonal-and-neighbours subset on width 32 and two (six) random widths; longer slices too
    for f in slice_fmts.iter() {
        let sg = fm(f.sg);
        let af = fm(sg.fl);
        let mut widths: Vec<usize> = vec![0, 1, 2, 3, 32];
        for _ in 0..(if thorough { 6 } else { 2 }) {
            widths.push(rng.range(4, 31) as usize);
        }
        for n in widths {
            let nn = n.max(1);
            let mut pairs: Vec<(usize, usize)> = Vec::new();
            for la in 0..=4usize {
                for lb in 0..=4usize {
                    if thorough || nn <= 3 || la == lb || la + 1 == lb || (la == 3 && lb == 0) || (la == 2 && lb == 1) || (la == 0 && lb == 2) {
                        pairs.push((la, lb));
                    }
                }
            }
            for _ in 0..(if thorough { 3 } else { 1 }) {
                let l = rng.range(5, if thorough { 100 } else { 12 }) as usize;
                pairs.push((l, l));
                pairs.push((l, l + 1));
                pairs.push((l + 1, l));
            }
            // (the pairs with a LONGER than b go into executions of their own at the very end of the file: code that skips the
            // length check reads b out of bounds there and may crash the process; everything else is judged event by event)
            for (op, longer) in [("zip_map", false), ("write", false), ("add", false), ("add_amp", false), ("equilibrium", false), ("map", false),
                                 ("zip_map", true), ("write", true), ("add", true), ("add_amp", true)] {
                let mut ex = vec![reset("slice", f, n, if longer { "inplace_longer" } else { "inplace" })];
                for &(la, lb) in pairs.iter() {
                    let two = !(op == "equilibrium" || op == "map");
                    if two && (la > lb) != longer {
                        continue;
                    }
                    if !two && lb != 0 && lb != la + 1 {
                        continue;
                    }
                    let lb = if two { lb } else { 0 };
                    let xa: Vec<V> = (0..la * nn).map(|_| rand_sample(&mut rng, f)).collect();
                    let ys: Vec<V> = (0..la * nn).map(|_| rand_sample(&mut rng, f)).collect();
                    let amp: Vec<V> = (0..nn).map(|_| V::F(rand_float(&mut rng, &af, 1.0).clamp(-0.99, 0.99))).collect();
                    let xb: Vec<V> = (0..lb * nn)
                        .map(|k| {
                            if op == "add" || op == "add_amp" {
                                // an amplitude in the Signed format that can be added to the matching element of xa
                                // (for add_amp: whatever gain of magnitude < 1 is applied to it first)
                                match (f.float, xa.get(k)) {
                                    (true, _) => V::F(rand_float(&mut rng, &sg, 1.0)),
                                    (false, Some(V::I(a))) if op == "add" => rand_offset(&mut rng, f, &[V::I(*a)], false),
                                    (false, Some(V::I(a))) => {
                                        let i = img(f, *a);
                                        let room = (sg.half() - 1 - i).min(i + sg.half()) / 2;
                                        V::I(rand_amp_in(&mut rng, -room, room))
                                    }
                                    _ => V::I(rand_amp_in(&mut rng, -sg.half() / 2, sg.half() / 2)),
                                }
                            } else {
                                rand_sample(&mut rng, f)
                            }
                        })
                        .collect();
                    let xbj = if op == "add" || op == "add_amp" { vframes(&sg, &xb, nn) } else { vframes(f, &xb, nn) };
                    ex.push(json!({"ev":"inplace","a":{"fmt":f.name,"n":n,"op":op,"la":la,"lb":lb,
                        "xa":vframes(f,&xa,nn),"xb":xbj,"ys":vframes(f,&ys,nn),"ampf":vjs(&af,&amp)}}));
                }
                if longer {
                    late.push(ex);
                } else {
                    execs.push(ex);
                }
            }
            // the in-place additions as identities on extreme values: add the zero slice; add with gain 1.0 per channel of
            // the zero slice; add with gain 1.0 of a slice of extreme Signed amplitudes onto a slice that leaves room for it
            let mut ex = vec![reset("slice", f, n, "inplace_edge")];
            let ones: Vec<V> = vec![V::F(1.0); nn];
            for l in [1usize, 2, rng.range(3, if thorough { 40 } else { 6 }) as usize] {
                for variant in 0..4 {
                    if variant == 3 && f.float {
                        continue;
                    }
                    let (op, xa, xb): (&str, Vec<V>, Vec<V>) = match variant {
                        0 => ("add", edge_samples(&mut rng, f, l * nn), (0..l * nn).map(|_| zero_of(&mut rng, &sg)).collect()),
                        1 => ("add_amp", edge_samples(&mut rng, f, l * nn), (0..l * nn).map(|_| zero_of(&mut rng, &sg)).collect()),
                        3 => {
                            // landing: every sum is exactly MIN / MIN + 1 / MAX / MAX - 1 of the format (the first one MIN)
                            let (xa, xb) = land_pairs(&mut rng, f, l * nn);
                            ("add", xa, xb)
                        }
                        _ => {
                            let xb = edge_samples(&mut rng, &sg, l * nn);
                            // destination at (or a step inside) equilibrium on the side that keeps the sum representable
                            let xa = xb
                                .iter()
                                .map(|b| match b {
                                    V::I(m) => V::I(if *m >= 0 { -(rng.below(3) as i128) } else { rng.below(3) as i128 }),
                                    V::F(_) => V::F(0.0),
                                })
                                .collect();
                            ("add_amp", xa, xb)
                        }
                    };
                    ex.push(json!({"ev":"inplace","a":{"fmt":f.name,"n":n,"op":op,"la":l,"lb":l,
                        "xa":vframes(f,&xa,nn),"xb":vframes(&sg,&xb,nn),"ys":vframes(f,&xa,nn),"ampf":vjs(&af,&ones)}}));
                }
            }
            execs.push(ex);
        }
    }
    execs.append(&mut late);
    write_stimuli(path, &execs);
}

fn main() {
    let c = cli();
    quiet_panics();
    match c.mode.as_str() {
        "gen" => gen(c.a1.parse().unwrap(), &c.a2, &c.a3),
        "run" => {
            let only = c.a3.clone();
            let n = drive(&c.a1, &c.a2, |out, ex| exec(out, ex, &only));
            eprintln!("hx_frame: {} events", n);
        }
        _ => {
            eprintln!("usage: hx_frame run <stimuli> <trace> [frame|slice] | gen <seed> <quick|thorough> <stimuli>");
            std::process::exit(2);
        }
    }
}
