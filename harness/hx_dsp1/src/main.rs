//! hx_dsp1: drivers + loggers for property family dsp1
//!   C11  dasp_rms::Rms (own API and the dasp_signal::rms adaptor)            -> Trace_Rms.tla
//!   C19  dasp_peak rectifiers, dasp_envelope::Detector (peak x3, RMS; own API and the
//!        dasp_signal detect_envelope adaptor)                                -> Trace_Envelope.tla
//! `hx_dsp1 run <stimuli> <trace>` executes stimuli (from TLC's MC_Rms / MC_Envelope, from `gen`,
//! or a replay file); `hx_dsp1 gen <seed> <quick|thorough> <stimuli> [rms|env]` writes seeded
//! random stimuli.  No expected values and no assertions about dasp's results live here.
mod fmt;
mod rms_driver;

use dasp_envelope::{Detect, Detector};
use dasp_peak as peak;
use dasp_ring_buffer::Fixed;
use dasp_rms::Rms;
use dasp_sample::types::{I24, I48, U24, U48};
use dasp_signal::envelope::SignalEnvelope;
use dasp_signal::rms::SignalRms;
use dasp_signal::{self as signal, Signal};
use fmt::*;
use hx_common::*;
use rms_driver::rms_direct;
use serde_json::{json, Value};

#[global_allocator]
static A: CountingAlloc = CountingAlloc;

// ---------------------------------------------------------------------------- RMS through the signal adaptor

fn rms_signal<S, const N: usize>(out: &mut Out, reset: &Value, ops: &[Value], build: &str)
where
    S: Fmt,
    S::Float: Fmt,
{
    let mut cfg = reset["cfg"].clone();
    cfg["build"] = json!(build);
    let n = cfg["n"].as_u64().unwrap() as usize;
    // the source signal yields the frames of the sig_* events in order
    // (cfg.srclen, when present, cuts the source short: later calls read past its end, where a finite
    // signal yields equilibrium -- the generator puts equilibrium frames into those events)
    let mut frames: Vec<[S; N]> = ops.iter().map(|op| dec_frame::<S, N>(&op["a"]["x"])).collect();
    let logged: Vec<Value> = frames.iter().map(|f| json!({"x": enc_frame(f)})).collect();
    if let Some(sl) = cfg["srclen"].as_u64() {
        frames.truncate(sl as usize);
    }
    let built = catch(move || {
        let window: Vec<[S::Float; N]> = vec![<[S::Float; N] as dasp_frame::Frame>::EQUILIBRIUM; n];
        signal::from_iter(frames.into_iter()).rms(Fixed::from(window))
    });
    let mut sig = match built {
        None => {
            out.line(&json!({"ev":"reset","comp":"rms","cfg":cfg,"r":r_panic(),"o":{"ok":false,"wf":0,"cur":[]}}));
            return;
        }
        Some(s) => s,
    };
    // the adaptor exposes neither window_frames nor current; a second, untouched detector of the same
    // construction provides the header observations
    let fresh = Rms::<[S; N], Vec<[S::Float; N]>>::new(Fixed::from(vec![<[S::Float; N] as dasp_frame::Frame>::EQUILIBRIUM; n]));
    out.line(&json!({"ev":"reset","comp":"rms","cfg":cfg,"r":r_unit(),
                     "o":{"ok":true,"wf":fresh.window_frames(),"cur":enc_frame(&fresh.current())}}));
    for (op, a) in ops.iter().zip(logged.into_iter()) {
        let ev = op["ev"].as_str().unwrap();
        let (r, h, _) = measured(|| {
            catch(|| match ev {
                "sig_next" => sig.next(),
                "sig_next_squared" => sig.next_squared(),
                _ => panic!("unknown rms adaptor op {}", ev),
            })
        });
        let r = match r {
            None => r_panic(),
            Some(f) => r_val(enc_frame(&f)),
        };
        out.ev(ev, a, r, json!({}), h);
    }
}

fn rms_exec(out: &mut Out, ex: &[Value]) {
    let cfg = &ex[0]["cfg"];
    let fmt = cfg["fmt"].as_str().unwrap().to_string();
    let ch = cfg["ch"].as_u64().unwrap();
    if cfg["via"].as_str().unwrap_or("direct") == "signal" {
        rms_dispatch!(rms_signal, fmt.as_str(), ch, (out, &ex[0], &ex[1..], "std"))
    } else {
        rms_dispatch!(rms_direct, fmt.as_str(), ch, (out, &ex[0], &ex[1..], "std"))
    }
}

// ---------------------------------------------------------------------------- rectifiers

fn rect_run<S, const N: usize>(out: &mut Out, reset: &Value, ops: &[Value])
where
    S: Fmt,
    S::Signed: Fmt,
{
    out.line(&json!({"ev":"reset","comp":"rect","cfg":reset["cfg"],"r":r_unit(),"o":{"ok":true}}));
    enum R<A, B> {
        Own(A),
        Signed(B),
    }
    for op in ops {
        let kind = op["a"]["kind"].as_str().unwrap();
        let x = dec_frame::<S, N>(&op["a"]["x"]);
        let a = json!({"kind": kind, "x": enc_frame(&x)});
        let (r, h, _) = measured(|| {
            catch(|| match kind {
                "full" => R::Signed(peak::full_wave(x)),
                "pos" => R::Own(peak::positive_half_wave(x)),
                "neg" => R::Own(peak::negative_half_wave(x)),
                _ => panic!("unknown rectifier {}", kind),
            })
        });
        let r = match r {
            None => r_panic(),
            Some(R::Own(f)) => r_val(enc_frame::<S, N>(&f)),
            Some(R::Signed(f)) => r_val(enc_frame::<S::Signed, N>(&f)),
        };
        out.ev("rect", a, r, json!({}), h);
    }
}

fn rect_exec(out: &mut Out, ex: &[Value]) {
    let cfg = &ex[0]["cfg"];
    let fmt = cfg["fmt"].as_str().unwrap().to_string();
    let ch = cfg["ch"].as_u64().unwrap();
    by_fmt_ch!([i8 "i8", i16 "i16", I24 "i24", i32 "i32", I48 "i48", i64 "i64", u8 "u8", u16 "u16", U24 "u24",
                u32 "u32", U48 "u48", u64 "u64", f32 "f32", f64 "f64"],
               rect_run, fmt.as_str(), ch, (out, &ex[0], &ex[1..]))
}

// ---------------------------------------------------------------------------- envelope detector

/// the harness's own exp(-1/frames), in the type of the detector's gain (f32).  A HINT: the trace
/// spec verifies it (g^n * e = 1 against a rational enclosure of e) before using it as the gain.
fn hint(frames: f32) -> f32 {
    if frames == 0.0 {
        0.0
    } else {
        core::f32::consts::E.powf(-1.0 / frames)
    }
}
/// time constants travel as integer quarter frames `tq`; `nz` = 1 (only with tq = 0) makes the driver
/// pass IEEE negative zero, which is a zero time too (-0.0 == 0.0, -0.0 >= 0.0)
fn frames_of(tq: &Value, nz: &Value) -> f32 {
    let t = tq.as_u64().unwrap();
    if t == 0 && nz.as_u64().unwrap_or(0) == 1 {
        -0.0f32
    } else {
        t as f32 / 4.0
    }
}
fn is_neg_zero(f: f32) -> bool {
    f == 0.0 && f.is_sign_negative()
}
fn flag(v: &Value) -> Value {
    json!(v.as_u64().unwrap_or(0))
}

fn env_run<S, OS, D, const N: usize>(
    out: &mut Out,
    reset: &Value,
    ops: &[Value],
    make: impl FnOnce(f32, f32) -> Detector<[S; N], D>,
    mut shadow: impl FnMut([S; N]) -> [OS; N],
) where
    S: Fmt,
    OS: Fmt,
    D: Detect<[S; N], Output = [OS; N]>,
{
    // the logged header always carries nza / nzr (negative-zero attack / release time) and srclen (-1 = none)
    let mut cfg = reset["cfg"].clone();
    cfg["nza"] = flag(&cfg["nza"]);
    cfg["nzr"] = flag(&cfg["nzr"]);
    let srclen = cfg["srclen"].as_u64();
    cfg["srclen"] = json!(srclen.map(|v| v as i64).unwrap_or(-1));
    let via_signal = cfg["via"].as_str().unwrap_or("direct") == "signal";
    let (af, rf) = (frames_of(&cfg["attack"], &cfg["nza"]), frames_of(&cfg["release"], &cfg["nzr"]));
    // what is logged is what was passed: the flag is 1 exactly when the time handed over is -0.0
    cfg["nza"] = json!(is_neg_zero(af) as u64);
    cfg["nzr"] = json!(is_neg_zero(rf) as u64);
    let hints = json!({"ok": true, "ga": f32f(hint(af)), "gr": f32f(hint(rf))});
    let frames: Vec<Option<[S; N]>> = ops.iter().map(|op| op["a"].get("x").map(|v| dec_frame::<S, N>(v))).collect();
    enum Run<A, B> {
        Direct(A),
        Sig(B),
    }
    // adaptor runs: the source signal yields the frames of the env_sig_next events in order.
    // cfg.srclen >= 0 cuts the source short: later calls read past its end, where a finite signal
    // yields equilibrium -- the stimulus puts equilibrium frames into those events (they are what
    // is logged as the call's input and what the shadow detection sees)
    let mut src: Vec<[S; N]> = frames.iter().filter_map(|f| *f).collect();
    if let (true, Some(sl)) = (via_signal, srclen) {
        src.truncate(sl as usize);
    }
    let built = catch(move || {
        let det = make(af, rf);
        if via_signal {
            Run::Sig(signal::from_iter(src.into_iter()).detect_envelope(det))
        } else {
            Run::Direct(det)
        }
    });
    let mut run = match built {
        None => {
            out.line(&json!({"ev":"reset","comp":"env","cfg":cfg,"r":r_panic(),"o":{"ok":false}}));
            return;
        }
        Some(r) => r,
    };
    out.line(&json!({"ev":"reset","comp":"env","cfg":cfg,"r":r_unit(),"o":hints}));
    for (op, x) in ops.iter().zip(frames.into_iter()) {
        let ev = op["ev"].as_str().unwrap();
        match x {
            Some(x) => {
                let (r, h, _) = measured(|| {
                    catch(|| match &mut run {
                        Run::Direct(d) => d.next(x),
                        Run::Sig(s) => s.next(),
                    })
                });
                // the detected value is not visible through the detector: the same detection applied
                // by the driver (rectifier function / a second Rms fed the same frames)
                let det = catch(|| shadow(x));
                let o = match det {
                    Some(d) => json!({"det": enc_frame(&d)}),
                    None => json!({"det": []}),
                };
                let r = match r {
                    None => r_panic(),
                    Some(f) => r_val(enc_frame(&f)),
                };
                out.ev(ev, json!({"x": enc_frame(&x)}), r, o, h);
            }
            None => {
                let which = op["a"]["which"].as_str().unwrap();
                let mut a = op["a"].clone();
                a["nz"] = flag(&a["nz"]);
                let fr = frames_of(&a["tq"], &a["nz"]);
                a["nz"] = json!(is_neg_zero(fr) as u64);
                let (r, h, _) = measured(|| {
                    catch(|| match (&mut run, which) {
                        (Run::Direct(d), "attack") => d.set_attack_frames(fr),
                        (Run::Direct(d), "release") => d.set_release_frames(fr),
                        (Run::Sig(s), "attack") => s.set_attack_frames(fr),
                        (Run::Sig(s), "release") => s.set_release_frames(fr),
                        _ => panic!("unknown setter {}", which),
                    })
                });
                let r = if r.is_some() { r_unit() } else { r_panic() };
                out.ev(ev, a, r, json!({"hint": f32f(hint(fr))}), h);
            }
        }
    }
}

fn env_full<S, const N: usize>(out: &mut Out, reset: &Value, ops: &[Value])
where
    S: Fmt,
    S::Signed: Fmt,
{
    env_run::<S, S::Signed, _, N>(out, reset, ops, |a, r| Detector::peak(a, r), |f| peak::full_wave(f))
}
fn env_pos<S: Fmt, const N: usize>(out: &mut Out, reset: &Value, ops: &[Value]) {
    env_run::<S, S, _, N>(out, reset, ops, |a, r| Detector::peak_positive_half_wave(a, r), |f| peak::positive_half_wave(f))
}
fn env_neg<S: Fmt, const N: usize>(out: &mut Out, reset: &Value, ops: &[Value]) {
    env_run::<S, S, _, N>(out, reset, ops, |a, r| Detector::peak_negative_half_wave(a, r), |f| peak::negative_half_wave(f))
}
fn env_rms<S, const N: usize>(out: &mut Out, reset: &Value, ops: &[Value])
where
    S: Fmt,
    S::Float: Fmt,
{
    let n = reset["cfg"]["n"].as_u64().unwrap() as usize;
    let win = move || Fixed::from(vec![<[S::Float; N] as dasp_frame::Frame>::EQUILIBRIUM; n]);
    let mut sh = Rms::<[S; N], Vec<[S::Float; N]>>::new(win());
    env_run::<S, S::Float, _, N>(out, reset, ops, move |a, r| Detector::rms(win(), a, r), move |f| sh.next(f))
}

fn env_exec(out: &mut Out, ex: &[Value]) {
    let cfg = &ex[0]["cfg"];
    let fmt = cfg["fmt"].as_str().unwrap().to_string();
    let ch = cfg["ch"].as_u64().unwrap();
    macro_rules! go {
        ($f:ident) => {
            by_fmt_ch!([f32 "f32", f64 "f64", i16 "i16"], $f, fmt.as_str(), ch, (out, &ex[0], &ex[1..]))
        };
    }
    match cfg["det"].as_str().unwrap() {
        "full" => go!(env_full),
        "pos" => go!(env_pos),
        "neg" => go!(env_neg),
        "rms" => go!(env_rms),
        d => panic!("unknown detection {}", d),
    }
}

// ---------------------------------------------------------------------------- seeded random stimuli

/// random finite float: sign * (1 + frac) * 2^e, e uniform in [emin, emax]; full mantissa
fn rf64(rng: &mut Rng, emin: i64, emax: i64) -> f64 {
    let e = rng.range(emin, emax);
    let frac = (rng.next() >> 11) as f64 / (1u64 << 53) as f64;
    let v = (1.0 + frac) * (2.0f64).powi(e as i32);
    if rng.chance(1, 2) {
        -v
    } else {
        v
    }
}
fn bits_of(fmt: &str) -> u32 {
    match fmt {
        "i8" | "u8" => 8,
        "i16" | "u16" => 16,
        "i24" | "u24" => 24,
        "i32" | "u32" | "f32" => 32,
        "i48" | "u48" => 48,
        _ => 64,
    }
}
/// one sample of format `fmt` in native encoding; `loud` = exponent offset of the current passage.
/// Floats stay within 2^-24 <= |x| <= 2^12 (or 0); integers are uniform over a random bit width.
fn sample(rng: &mut Rng, fmt: &str, loud: i64, avoid_min: bool) -> Value {
    match fmt {
        "f32" => {
            if rng.chance(1, 40) {
                return f32f(0.0);
            }
            f32f(rf64(rng, -9 + loud, -1 + loud) as f32)
        }
        "f64" => {
            if rng.chance(1, 40) {
                return f64f(0.0);
            }
            f64f(rf64(rng, -9 + loud, -1 + loud))
        }
        _ => {
            let bits = bits_of(fmt);
            let signed = fmt.starts_with('i');
            let w = (rng.range(2, bits as i64) + loud.min(0)).max(1) as u32; // magnitude width
            let mag = (rng.next() as u128 | ((rng.next() as u128) << 64)) & ((1u128 << (w - 1)) - 1);
            let mut amp = if rng.chance(1, 2) { -(mag as i128) - 1 } else { mag as i128 };
            if avoid_min && amp == -(1i128 << (bits - 1)) {
                amp += 1;
            }
            big(if signed { amp } else { amp + (1i128 << (bits - 1)) })
        }
    }
}
fn frame(rng: &mut Rng, fmt: &str, ch: usize, loud: i64, exact: bool, avoid_min: bool) -> Value {
    Value::Array(
        (0..ch)
            .map(|_| if exact { json!({"d": [rng.range(-8, 8), 4]}) } else { sample(rng, fmt, loud, avoid_min) })
            .collect(),
    )
}

fn gen_rms(rng: &mut Rng, thorough: bool, execs: &mut Vec<Vec<Value>>) {
    let fmts = ["f32", "f64", "i8", "i16", "i32", "u16"];
    // (window, how many executions): every history is 50 * window frames long
    let plan: &[(usize, usize)] = if thorough {
        &[(1, 12), (2, 12), (3, 12), (4, 8), (5, 8), (7, 6), (8, 6), (16, 6), (31, 3), (32, 3), (63, 2), (64, 4)]
    } else {
        &[(1, 6), (2, 6), (3, 4), (4, 3), (8, 2), (16, 1), (33, 1), (64, 1)]
    };
    let mut k = 0usize;
    for &(n, count) in plan {
        for _ in 0..count {
            let fmt = fmts[k % 6];
            let ch = if n >= 32 && !thorough { 1 + k % 2 } else { 1 + (k / 6 + k) % 4 };
            let via = if k % 4 == 3 { "signal" } else { "direct" };
            // value regime: steady level (tight bound throughout) / loud bursts and quiet stretches
            // (exercises the drift the budget must admit) / exact-arithmetic domain
            let exact = k % 3 == 2;
            let bursty = k % 3 == 1;
            k += 1;
            let total = 50 * n;
            // the adaptor over a finite source that is read past its end (every other adaptor run)
            let srclen = if via == "signal" && k % 8 == 4 { Some(rng.below(total as u64 * 3 / 4 + 1) as usize) } else { None };
            let mut ex = vec![match srclen {
                Some(sl) => json!({"ev":"reset","comp":"rms","cfg":{"n":n,"fmt":fmt,"ch":ch,"via":via,"srclen":sl}}),
                None => json!({"ev":"reset","comp":"rms","cfg":{"n":n,"fmt":fmt,"ch":ch,"via":via}}),
            }];
            let mut loud = 0i64;
            for i in 0..total {
                if let Some(sl) = srclen {
                    if i >= sl {
                        let z = Value::Array((0..ch).map(|_| json!({"d": [0, 4]})).collect());
                        ex.push(json!({"ev": if rng.chance(1, 2) {"sig_next"} else {"sig_next_squared"}, "a": {"x": z}}));
                        continue;
                    }
                }
                // passages: mostly normal level, sometimes a loud burst or a quiet stretch
                if bursty && rng.chance(1, (2 * n as u64).max(8)) {
                    loud = *rng.pick(&[0, 0, 0, 10, 12, -12, -6, 4]);
                }
                let x = frame(rng, fmt, ch, loud, exact, false);
                let p = rng.below(100);
                if via == "signal" {
                    ex.push(json!({"ev": if p < 60 {"sig_next"} else {"sig_next_squared"}, "a": {"x": x}}));
                } else if p < 55 {
                    ex.push(json!({"ev":"next","a":{"x":x}}));
                } else if p < 90 {
                    ex.push(json!({"ev":"next_squared","a":{"x":x}}));
                } else if p < 97 {
                    ex.push(json!({"ev":"current","a":{"z":0}}));
                } else if p < 99 || n > 8 {
                    ex.push(json!({"ev":"next","a":{"x":x}}));
                } else {
                    ex.push(json!({"ev":"rms_reset","a":{"z":0}}));
                    ex.push(json!({"ev":"current","a":{"z":0}}));
                }
            }
            if via == "direct" {
                // a reset deep into the history, then a fresh window's worth of frames
                ex.push(json!({"ev":"rms_reset","a":{"z":0}}));
                ex.push(json!({"ev":"current","a":{"z":0}}));
                for _ in 0..(n + 2) {
                    let x = frame(rng, fmt, ch, 0, exact, false);
                    ex.push(json!({"ev": if rng.chance(1, 2) {"next"} else {"next_squared"}, "a": {"x": x}}));
                }
                ex.push(json!({"ev":"current","a":{"z":0}}));
            }
            execs.push(ex);
        }
    }
}

/// A loud frame whose square absorbs the following tiny one, silence until the loud frame has left the
/// window (the running sum is then exactly zero although the window still holds the tiny square), a
/// reset, and a quiet passage at the tiny level: "a reset restores the all-zero state".
fn gen_rms_absorb(rng: &mut Rng, thorough: bool, execs: &mut Vec<Vec<Value>>) {
    let cases: &[(&str, i64)] = &[("f32", -14), ("f64", -30), ("i16", 0), ("i32", 0), ("u16", 0), ("i8", 0)];
    for rep in 0..(if thorough { 5 } else { 1 }) {
        for &(fmt, texp) in cases {
            let n = 2 + (rng.below(if thorough { 7 } else { 3 }) as usize + rep) % 7;
            let ch = 1 + rng.below(2) as usize;
            let bits = bits_of(fmt);
            let (loud, tiny, zero): (Value, Value, Value) = match fmt {
                "f32" => (f32f(-0.75), f32f((2.0f64).powi(texp as i32) as f32), f32f(0.0)),
                "f64" => (f64f(0.75), f64f((2.0f64).powi(texp as i32)), f64f(0.0)),
                _ => {
                    let half = 1i128 << (bits - 1);
                    let off = if fmt.starts_with('i') { 0 } else { half };
                    (big(-half + off), big(1 + off), big(off))
                }
            };
            let fr = |v: &Value| Value::Array((0..ch).map(|_| v.clone()).collect());
            let mut ex = vec![json!({"ev":"reset","comp":"rms","cfg":{"n":n,"fmt":fmt,"ch":ch,"via":"direct"}})];
            ex.push(json!({"ev":"next_squared","a":{"x":fr(&loud)}}));
            ex.push(json!({"ev":"next_squared","a":{"x":fr(&tiny)}}));
            for _ in 0..(n - 1) {
                ex.push(json!({"ev":"next","a":{"x":fr(&zero)}}));
            }
            ex.push(json!({"ev":"rms_reset","a":{"z":0}}));
            ex.push(json!({"ev":"current","a":{"z":0}}));
            for _ in 0..(2 * n + 1) {
                ex.push(json!({"ev": if rng.chance(1, 2) {"next"} else {"next_squared"}, "a":{"x":fr(&tiny)}}));
            }
            ex.push(json!({"ev":"current","a":{"z":0}}));
            execs.push(ex);
        }
    }
}

fn gen_env(rng: &mut Rng, thorough: bool, execs: &mut Vec<Vec<Value>>) {
    // rectifiers: random values of every width on all 14 formats x 1..4 channels
    let all = ["i8", "i16", "i24", "i32", "i48", "i64", "u8", "u16", "u24", "u32", "u48", "u64", "f32", "f64"];
    let per = if thorough { 60 } else { 12 };
    for fmt in all {
        for ch in 1..=4usize {
            let mut ex = vec![json!({"ev":"reset","comp":"rect","cfg":{"fmt":fmt,"ch":ch}})];
            for _ in 0..per {
                let loud = *rng.pick(&[0, 0, 6, -6]);
                let x = frame(rng, fmt, ch, loud, false, false);
                ex.push(json!({"ev":"rect","a":{"kind": *rng.pick(&["full","pos","neg"]), "x": x}}));
            }
            execs.push(ex);
        }
    }
    // detector
    let times = [0u64, 4, 8, 20, 256, 2, 1]; // quarter frames: 0, 1, 2, 5, 64, 1/2, 1/4
    let fmts = ["f32", "f64", "i16"];
    let dets = ["full", "pos", "neg", "rms"];
    let count = if thorough { 360 } else { 48 };
    // a zero time is passed as IEEE negative zero (-0.0 == 0.0: a zero time too) one time in three
    fn nz_of(rng: &mut Rng, tq: u64) -> u64 {
        (tq == 0 && rng.chance(1, 3)) as u64
    }
    for k in 0..count {
        let fmt = fmts[k % 3];
        let det = dets[(k / 3) % 4];
        let ch = 1 + (k / 12 + k) % 4;
        let via = if k % 5 == 4 { "signal" } else { "direct" };
        let n = if det == "rms" { *rng.pick(&[1usize, 2, 3, 8]) } else { 0 };
        let len = rng.range(40, if thorough { 160 } else { 90 }) as usize;
        // deliberate scenarios (k % 7 and k % 10 meet every format; both meet every detection kind over the run):
        //  zero phase: attack = release = 0 for a stretch (from the start, or switched to mid-run), then a
        //    non-zero time -- the smoothing must continue from the last envelope yielded in the zero phase;
        //  finite source: every other adaptor run reads its source past the end (cfg.srclen): the later
        //    events carry equilibrium frames and the release tail must keep decaying (release > 0 there).
        let zero_phase: Option<(usize, usize)> = match k % 7 {
            3 => Some((0, len / 3)),               // zero times from construction
            5 => Some((len / 3, 2 * len / 3)),     // switched to zero mid-run
            _ => None,
        };
        // (where both scenarios meet, the source ends after the zero phase)
        let srclen = if via == "signal" && k % 10 == 4 {
            Some(rng.range(len as i64 / if zero_phase.is_some() { 2 } else { 4 }, 3 * len as i64 / 4) as usize)
        } else {
            None
        };
        let (mut ta, mut tr) = (times[rng.below(6) as usize], times[rng.below(6) as usize]);
        if let Some((0, _)) = zero_phase {
            ta = 0;
            tr = 0;
        } else if srclen.is_some() && tr == 0 {
            tr = times[1 + rng.below(4) as usize];
        }
        let (nza, nzr) = (nz_of(rng, ta), nz_of(rng, tr));
        let mut ex = vec![json!({"ev":"reset","comp":"env","cfg":{"fmt":fmt,"ch":ch,"det":det,"n":n,
                                 "attack":ta,"release":tr,"nza":nza,"nzr":nzr,"via":via,
                                 "srclen": srclen.map(|v| v as i64).unwrap_or(-1)}})];
        let set_ev = if via == "signal" { "env_sig_set" } else { "env_set" };
        let next_ev = if via == "signal" { "env_sig_next" } else { "env_next" };
        // input shapes: rising ramp, falling ramp, constant stretches, noise
        let shape = k % 4;
        let mut level: Vec<f64> = (0..ch).map(|_| if shape == 1 { 0.9 } else { 0.02 }).collect();
        let mut i = 0;
        while i < len {
            let in_zero = zero_phase.map_or(false, |(a, b)| a <= i && i < b);
            if let Some((a, b)) = zero_phase {
                if i == a && a > 0 {
                    // both times to zero (either order)
                    let first = rng.below(2) as usize;
                    for w in [first, 1 - first] {
                        let which = ["attack", "release"][w];
                        ex.push(json!({"ev": set_ev, "a": {"which": which, "tq": 0, "nz": nz_of(rng, 0)}}));
                    }
                }
                if i == b {
                    // end of the zero phase: BOTH times non-zero (either order), so that whichever gain the
                    // next frame picks, it smooths from the envelope last yielded in the phase
                    let first = rng.below(2) as usize;
                    for w in [first, 1 - first] {
                        let which = ["attack", "release"][w];
                        ex.push(json!({"ev": set_ev, "a": {"which": which, "tq": times[1 + rng.below(6) as usize], "nz": 0}}));
                    }
                }
            }
            let at_end = zero_phase.map_or(false, |(_, b)| i == b);
            if !in_zero && !at_end && rng.chance(1, 18) {
                let which = *rng.pick(&["attack", "release"]);
                // a finite-source run keeps its release time non-zero (the tail is the point of it)
                let tq = if srclen.is_some() && which == "release" { times[1 + rng.below(6) as usize] } else { times[rng.below(7) as usize] };
                ex.push(json!({"ev": set_ev, "a": {"which": which, "tq": tq, "nz": nz_of(rng, tq)}}));
            }
            if srclen.map_or(false, |sl| i >= sl) {
                // past the end of the source: equilibrium
                let z = match fmt {
                    "f32" => f32f(0.0),
                    "f64" => f64f(0.0),
                    _ => big(0),
                };
                ex.push(json!({"ev": next_ev, "a": {"x": Value::Array((0..ch).map(|_| z.clone()).collect())}}));
                i += 1;
                continue;
            }
            let x: Vec<Value> = (0..ch)
                .map(|c| {
                    match shape {
                        0 => level[c] = (level[c] + 0.9 / len as f64).min(0.95),
                        1 => level[c] = (level[c] - 0.9 / len as f64).max(0.0),
                        2 => {
                            if rng.chance(1, 15) {
                                level[c] = rng.below(1000) as f64 / 1050.0;
                            }
                        }
                        _ => level[c] = rng.below(1000) as f64 / 1050.0,
                    }
                    // full-precision value near the level, either sign (the rectifier decides)
                    let jitter = if shape == 2 { 0.0 } else { (rng.below(1 << 20) as f64) * 1e-9 };
                    let v = (level[c] + jitter) * if rng.chance(1, 2) { -1.0 } else { 1.0 };
                    match fmt {
                        "f32" => f32f(v as f32),
                        "f64" => f64f(v),
                        _ => big(((v * 32767.0) as i64).clamp(-32767, 32767) as i128),
                    }
                })
                .collect();
            ex.push(json!({"ev": next_ev, "a": {"x": x}}));
            i += 1;
        }
        execs.push(ex);
    }
}

fn main() {
    let args: Vec<String> = std::env::args().collect();
    let c = cli();
    silence_panics();
    match c.mode.as_str() {
        "gen" => {
            let seed: u64 = c.a1.parse().unwrap();
            let thorough = c.a2 == "thorough";
            let only = args.get(5).map(|s| s.as_str()).unwrap_or("all");
            let mut execs = Vec::new();
            if only == "all" || only == "rms" {
                gen_rms(&mut Rng::new(seed ^ 0x11), thorough, &mut execs);
                gen_rms_absorb(&mut Rng::new(seed ^ 0x13), thorough, &mut execs);
            }
            if only == "all" || only == "env" {
                gen_env(&mut Rng::new(seed ^ 0x19), thorough, &mut execs);
            }
            write_stimuli(&c.a3, &execs);
        }
        "run" => {
            let n = drive(&c.a1, &c.a2, |out, ex| match ex[0]["comp"].as_str().unwrap() {
                "rms" => rms_exec(out, ex),
                "rect" => rect_exec(out, ex),
                "env" => env_exec(out, ex),
                c => panic!("unknown component {}", c),
            });
            eprintln!("hx_dsp1: {} events", n);
        }
        _ => {
            eprintln!("usage: hx_dsp1 run <stimuli> <trace> | gen <seed> <quick|thorough> <stimuli> [rms|env]");
            std::process::exit(2);
        }
    }
}
