//! hx_dsp1: drivers + loggers for property family dsp1
//!   C11  dasp_rms::Rms (own API and the dasp_signal::rms adaptor)            -> Trace_Rms.tla
//!   C19  dasp_peak rectifiers, dasp_envelope::Detector (peak x3, RMS; own API and the
//!        dasp_signal detect_envelope adaptor)                                -> Trace_Envelope.tla
//! `hx_dsp1 run <stimuli> <trace>` executes stimuli (from TLC's MC_Rms / MC_Envelope, from `gen`,
//! or a replay file); `hx_dsp1 gen <seed> <quick|thorough> <stimuli> [rms|env]` writes seeded
//! random stimuli.  No expected values and no assertions about dasp's results live here.
mod fmt;
mod rms_driver;

use dasp_envelope::detect::Peak;
use dasp_envelope::{Detect, Detector};
use dasp_frame::Frame;
use dasp_peak as peak;
use dasp_peak::Rectifier;
use dasp_ring_buffer::{Fixed, Slice, SliceMut};
use dasp_rms::Rms;
use dasp_sample::types::{I24, I48, U24, U48};
use dasp_signal::envelope::{DetectEnvelope, SignalEnvelope};
use dasp_signal::rms::SignalRms;
use dasp_signal::{self as signal, Signal};
use fmt::*;
use hx_common::*;
use rms_driver::*;
use serde_json::{json, Value};
use std::cell::RefCell;
use std::collections::VecDeque;
use std::rc::Rc;

#[global_allocator]
static A: CountingAlloc = CountingAlloc;

// ---------------------------------------------------------------------------- source signals of the adaptors

/// The signal an adaptor (`.rms(..)`, `.detect_envelope(..)`) is put on.
///  * `Iter` (cfg.src = "iter"): dasp's `signal::from_iter` over the frames of the execution's feeding events,
///    possibly cut short (cfg.srclen) so that the adaptor reads past its end;
///  * `Feed` (cfg.src = "gen"): yields the frame the driver queued just before the call.  Every clone of
///    it reads the same queue, so an adaptor and its clones can be continued with DIFFERENT inputs
///    (a cloned `from_iter` signal would replay the original's remaining frames).
#[derive(Clone)]
enum Source<F: Frame> {
    Iter(signal::FromIterator<std::vec::IntoIter<F>>),
    Feed(Rc<RefCell<VecDeque<F>>>),
}
impl<F: Frame> Signal for Source<F> {
    type Frame = F;
    fn next(&mut self) -> F {
        match self {
            Source::Iter(s) => s.next(),
            Source::Feed(q) => q.borrow_mut().pop_front().expect("a frame is queued before every call"),
        }
    }
    fn is_exhausted(&self) -> bool {
        match self {
            Source::Iter(s) => s.is_exhausted(),
            Source::Feed(_) => false,
        }
    }
}
type Queue<F> = Rc<RefCell<VecDeque<F>>>;
fn new_queue<F>() -> Queue<F> {
    Rc::new(RefCell::new(VecDeque::with_capacity(8)))
}
/// exactly the frame `x` is waiting in the queue (no allocation: the capacity is reserved)
fn offer<F>(q: &Queue<F>, x: F) {
    let mut q = q.borrow_mut();
    q.clear();
    q.push_back(x);
}
/// frames an `Iter` source of instance 0 yields: those of its feeding events up to the point where the
/// adaptor is taken apart
fn iter_frames<F>(ops: &[Value], parts_ev: &str, dec: impl Fn(&Value) -> F) -> Vec<F> {
    let mut v = Vec::new();
    for op in ops {
        if inst(op, "i") != 0 {
            continue;
        }
        if op["ev"] == parts_ev {
            break;
        }
        if let Some(x) = op["a"].get("x") {
            v.push(dec(x));
        }
    }
    v
}

// ---------------------------------------------------------------------------- RMS through the signal adaptor

enum RmsInst<S: Fmt, St, const N: usize>
where
    S::Float: Fmt,
    St: Slice<Element = FF<S, N>> + SliceMut,
{
    Sig(signal::rms::Rms<Source<[S; N]>, St>),
    Direct(Rms<[S; N], St>),
}

/// Executions that start on the `dasp_signal::rms` adaptor.  Instances: see rms_driver.rs; here an instance
/// is the adaptor (`sig_next`, `sig_next_squared`, `sig_clone`, `sig_move`) until `sig_parts` takes it apart
/// (`into_parts`), after which the same instance goes on as the bare detector (`next` ... `rms_clone`).
fn rms_signal<S, St, const N: usize>(out: &mut Out, reset: &Value, ops: &[Value], build: &str, make: impl Fn(usize) -> Fixed<St>)
where
    S: Fmt,
    S::Float: Fmt,
    St: Slice<Element = FF<S, N>> + SliceMut + Clone + std::fmt::Debug,
{
    let cfg = rms_cfg(reset, build, "signal");
    let n = cfg["n"].as_u64().unwrap() as usize;
    let sc = scale_of(&cfg);
    let gen = cfg["src"] == "gen";
    let queue: Queue<[S; N]> = new_queue();
    // (cfg.srclen, when present, cuts an Iter source short: later calls read past its end, where a finite
    // signal yields equilibrium -- the generator puts equilibrium frames into those events)
    let mut frames: Vec<[S; N]> = iter_frames(ops, "sig_parts", |v| dec_frame_sc::<S, N>(v, sc));
    if let Some(sl) = cfg["srclen"].as_u64() {
        frames.truncate(sl as usize);
    }
    let q0 = queue.clone();
    let built = catch(|| {
        let src = if gen { Source::Feed(q0) } else { Source::Iter(signal::from_iter(frames.into_iter())) };
        src.rms(make(n))
    });
    let sig = match built {
        None => {
            out.line(&json!({"ev":"reset","comp":"rms","cfg":cfg,"r":r_panic(),"o":{"ok":false,"wf":0,"cur":[]}}));
            return;
        }
        Some(s) => s,
    };
    // the adaptor exposes neither window_frames nor current; a second, untouched detector of the same
    // construction provides the header observations
    let fresh = Rms::<[S; N], St>::new(make(n));
    out.line(&json!({"ev":"reset","comp":"rms","cfg":cfg,"r":r_unit(),
                     "o":{"ok":true,"wf":fresh.window_frames(),"cur":enc_frame(&fresh.current())}}));
    let mut insts: Vec<Option<RmsInst<S, St, N>>> = vec![Some(RmsInst::Sig(sig))];
    for op in ops {
        let ev = op["ev"].as_str().unwrap();
        let i = inst(op, "i");
        if i >= insts.len() || insts[i].is_none() {
            out.ev(ev, json!({"i": i, "z": 0}), r_panic(), json!({}), [0, 0, 0]);
            continue;
        }
        let unit = |ok: bool| if ok { r_unit() } else { r_panic() };
        match ev {
            "sig_next" | "sig_next_squared" => {
                let x = dec_frame_sc::<S, N>(&op["a"]["x"], sc);
                offer(&queue, x);
                let (r, h, _) = measured(|| {
                    catch(|| match insts[i].as_mut().unwrap() {
                        RmsInst::Sig(s) if ev == "sig_next" => s.next(),
                        RmsInst::Sig(s) => s.next_squared(),
                        _ => panic!("{}: instance {} is not the adaptor", ev, i),
                    })
                });
                out.ev(ev, json!({"i": i, "x": enc_frame(&x)}), ret_json::<S, N>(r.map(Some)), json!({}), h);
            }
            "sig_clone" | "rms_clone" => {
                let j = insts.len();
                let (c, h, _) = measured(|| {
                    catch(|| match (insts[i].as_ref().unwrap(), ev) {
                        (RmsInst::Sig(s), "sig_clone") => RmsInst::Sig(s.clone()),
                        (RmsInst::Direct(d), "rms_clone") => RmsInst::Direct(d.clone()),
                        _ => panic!("{}: wrong kind of instance {}", ev, i),
                    })
                });
                let o = match &c {
                    Some(RmsInst::Direct(d)) => match catch(|| (d.window_frames(), d.current())) {
                        Some((wf, cur)) => json!({"ok":true,"wf":wf,"cur":enc_frame(&cur)}),
                        None => json!({"ok":false,"wf":0,"cur":[]}),
                    },
                    _ => json!({}),
                };
                let r = unit(c.is_some());
                insts.push(c);
                out.ev(ev, json!({"i": i, "j": j}), r, o, h);
            }
            "sig_move" | "rms_move" => {
                let taken = insts[i].take().unwrap();
                let (m, h, _) = measured(|| {
                    catch(|| match (taken, ev) {
                        (RmsInst::Sig(s), "sig_move") => RmsInst::Sig(relocate(s)),
                        (RmsInst::Direct(d), "rms_move") => RmsInst::Direct(relocate(d)),
                        _ => panic!("{}: wrong kind of instance {}", ev, i),
                    })
                });
                let r = unit(m.is_some());
                insts[i] = m;
                out.ev(ev, json!({"i": i}), r, json!({}), h);
            }
            "sig_parts" => {
                let taken = insts[i].take().unwrap();
                let (m, h, _) = measured(|| {
                    catch(|| match taken {
                        RmsInst::Sig(s) => RmsInst::Direct(s.into_parts().1),
                        _ => panic!("{}: instance {} is not the adaptor", ev, i),
                    })
                });
                let r = unit(m.is_some());
                insts[i] = m;
                out.ev(ev, json!({"i": i}), r, json!({}), h);
            }
            // (the adaptor implements no Debug: only a bare detector can be rendered; on an adaptor the event is not executed)
            "rms_fmt" => {
                if let RmsInst::Direct(rms) = insts[i].as_ref().unwrap() {
                    let (r, o, h) = fmt_call(rms);
                    out.ev(ev, json!({"i": i}), r, o, h);
                }
            }
            _ => match insts[i].as_mut().unwrap() {
                RmsInst::Direct(rms) => {
                    let (a, r, h) = direct_call::<S, St, N>(rms, ev, op, sc);
                    out.ev(ev, with_i(a, i), ret_json::<S, N>(r), json!({}), h);
                }
                RmsInst::Sig(_) => out.ev(ev, json!({"i": i, "z": 0}), r_panic(), json!({}), [0, 0, 0]),
            },
        }
    }
}
fn rms_signal_any<S, const N: usize>(out: &mut Out, reset: &Value, ops: &[Value], build: &str)
where
    S: Fmt,
    S::Float: Fmt,
{
    match reset["cfg"]["store"].as_str().unwrap_or("vec") {
        "vec" => rms_signal::<S, Vec<FF<S, N>>, N>(out, reset, ops, build, |n| Fixed::from(eq_window::<S, N>(n))),
        "box" => rms_signal::<S, Box<[FF<S, N>]>, N>(out, reset, ops, build, |n| Fixed::from(eq_window::<S, N>(n).into_boxed_slice())),
        s => panic!("rms adaptor: unsupported ring storage {}", s),
    }
}

fn rms_exec(out: &mut Out, ex: &[Value]) {
    let cfg = &ex[0]["cfg"];
    let fmt = cfg["fmt"].as_str().unwrap().to_string();
    let ch = cfg["ch"].as_u64().unwrap();
    if cfg["via"].as_str().unwrap_or("direct") == "signal" {
        rms_dispatch!(rms_signal_any, fmt.as_str(), ch, (out, &ex[0], &ex[1..], "std"))
    } else {
        rms_dispatch!(rms_direct_any, fmt.as_str(), ch, (out, &ex[0], &ex[1..], "std"))
    }
}

// ---------------------------------------------------------------------------- rectifiers

fn rect_run<S, const N: usize>(out: &mut Out, reset: &Value, ops: &[Value])
where
    S: Fmt,
    S::Signed: Fmt,
{
    let mut cfg = reset["cfg"].clone();
    cfg["profile"] = json!(profile());
    out.line(&json!({"ev":"reset","comp":"rect","cfg":cfg,"r":r_unit(),"o":{"ok":true}}));
    enum R<A, B> {
        Own(A),
        Signed(B),
    }
    for op in ops {
        let kind = op["a"]["kind"].as_str().unwrap();
        // by = "fn": the free functions; "trait": the Rectifier implementations FullWave / PositiveHalfWave / NegativeHalfWave
        let by = op["a"]["by"].as_str().unwrap_or("fn");
        let x = dec_frame::<S, N>(&op["a"]["x"]);
        let a = json!({"kind": kind, "by": by, "x": enc_frame(&x)});
        let (r, h, _) = measured(|| {
            catch(|| match (kind, by) {
                ("full", "fn") => R::Signed(peak::full_wave(x)),
                ("pos", "fn") => R::Own(peak::positive_half_wave(x)),
                ("neg", "fn") => R::Own(peak::negative_half_wave(x)),
                ("full", "trait") => R::Signed(peak::FullWave.rectify(x)),
                ("pos", "trait") => R::Own(peak::PositiveHalfWave.rectify(x)),
                ("neg", "trait") => R::Own(peak::NegativeHalfWave.rectify(x)),
                _ => panic!("unknown rectifier {} by {}", kind, by),
            })
        });
        let r = match r {
            None => r_panic(),
            Some(R::Own(f)) => r_val(enc_frame::<S, N>(&f)),
            Some(R::Signed(f)) => r_val(enc_frame::<S::Signed, N>(&f)),
        };
        out.ev("rect", a, r, json!({}), h);
    }
}

fn rect_exec(out: &mut Out, ex: &[Value]) {
    let cfg = &ex[0]["cfg"];
    let fmt = cfg["fmt"].as_str().unwrap().to_string();
    let ch = cfg["ch"].as_u64().unwrap();
    by_fmt_ch!([i8 "i8", i16 "i16", I24 "i24", i32 "i32", I48 "i48", i64 "i64", u8 "u8", u16 "u16", U24 "u24",
                u32 "u32", U48 "u48", u64 "u64", f32 "f32", f64 "f64"],
               rect_run, fmt.as_str(), ch, (out, &ex[0], &ex[1..]))
}

// ---------------------------------------------------------------------------- envelope detector

/// the harness's own exp(-1/frames), in the type of the detector's gain (f32).  A HINT: the trace
/// spec verifies it (g^n * e = 1 against a rational enclosure of e) before using it as the gain.
fn hint(frames: f32) -> f32 {
    if frames == 0.0 {
        0.0
    } else {
        core::f32::consts::E.powf(-1.0 / frames)
    }
}
/// time constants travel as integer quarter frames `tq`; `nz` = 1 (only with tq = 0) makes the driver
/// pass IEEE negative zero, which is a zero time too (-0.0 == 0.0, -0.0 >= 0.0)
fn frames_of(tq: &Value, nz: &Value) -> f32 {
    let t = tq.as_u64().unwrap();
    if t == 0 && nz.as_u64().unwrap_or(0) == 1 {
        -0.0f32
    } else {
        t as f32 / 4.0
    }
}
fn is_neg_zero(f: f32) -> bool {
    f == 0.0 && f.is_sign_negative()
}
fn flag(v: &Value) -> Value {
    json!(v.as_u64().unwrap_or(0))
}

enum EnvInst<F: Frame, D: Detect<F>> {
    Direct(Detector<F, D>),
    Sig(DetectEnvelope<Source<F>, D>),
}

/// One execution of the envelope follower.  It owns a growing list of detector INSTANCES: instance 0 is
/// built by the header (bare `Detector`, or on the `detect_envelope` adaptor when cfg.via = "signal");
///   env_clone / env_sig_clone {i, j}   instance j = `Clone` of the detector / of the adaptor i
///   env_move / env_sig_move {i}        instance i is moved to another place in memory (through a Box)
///   env_wrap {i}                       the bare detector i is put on the adaptor (`detect_envelope`)
///   env_sig_parts {i}                  the adaptor i is taken apart (`into_parts`), its detector goes on
///   env_next / env_sig_next {i, x},  env_set / env_sig_set {i, which, tq, nz}
/// (a stimulus may say env_flip {i}: env_wrap or env_sig_parts, whichever applies to the instance)
/// Every event names its instance (`a.i`, 0 when absent).  The detected value is not visible through the
/// detector: every instance has a shadow detection of the driver (rectifier function / a second Rms fed
/// the same frames, cloned together with the instance) that is logged next to the output.
fn env_run<S, OS, D, Sh, const N: usize>(out: &mut Out, reset: &Value, ops: &[Value], make: impl FnOnce(f32, f32) -> Detector<[S; N], D>, shadow: Sh)
where
    S: Fmt,
    OS: Fmt,
    D: Detect<[S; N], Output = [OS; N]> + Clone + std::fmt::Debug,
    Sh: FnMut([S; N]) -> [OS; N] + Clone,
{
    // the logged header always carries nza / nzr (negative-zero attack / release time), srclen (-1 = none),
    // src (source signal of an adaptor run), ctor (constructor entry point) and store (ring storage of an RMS detector)
    let mut cfg = reset["cfg"].clone();
    cfg["nza"] = flag(&cfg["nza"]);
    cfg["nzr"] = flag(&cfg["nzr"]);
    let srclen = cfg["srclen"].as_u64();
    cfg["srclen"] = json!(srclen.map(|v| v as i64).unwrap_or(-1));
    cfg["src"] = json!(cfg["src"].as_str().unwrap_or("iter"));
    cfg["ctor"] = json!(cfg["ctor"].as_str().unwrap_or("named"));
    cfg["store"] = json!(cfg["store"].as_str().unwrap_or("vec"));
    cfg["profile"] = json!(profile());
    let via_signal = cfg["via"].as_str().unwrap_or("direct") == "signal";
    let gen = cfg["src"] == "gen";
    let (af, rf) = (frames_of(&cfg["attack"], &cfg["nza"]), frames_of(&cfg["release"], &cfg["nzr"]));
    // what is logged is what was passed: the flag is 1 exactly when the time handed over is -0.0
    cfg["nza"] = json!(is_neg_zero(af) as u64);
    cfg["nzr"] = json!(is_neg_zero(rf) as u64);
    let hints = json!({"ok": true, "ga": f32f(hint(af)), "gr": f32f(hint(rf))});
    // adaptor runs over an Iter source: it yields the frames of instance 0's env_sig_next events in order.
    // cfg.srclen >= 0 cuts the source short: later calls read past its end, where a finite signal
    // yields equilibrium -- the stimulus puts equilibrium frames into those events (they are what
    // is logged as the call's input and what the shadow detection sees)
    let mut src: Vec<[S; N]> = iter_frames(ops, "env_sig_parts", |v| dec_frame::<S, N>(v));
    if let (true, Some(sl)) = (via_signal, srclen) {
        src.truncate(sl as usize);
    }
    let queue: Queue<[S; N]> = new_queue();
    let q0 = queue.clone();
    let built = catch(move || {
        let det = make(af, rf);
        if via_signal {
            let s = if gen { Source::Feed(q0) } else { Source::Iter(signal::from_iter(src.into_iter())) };
            EnvInst::Sig(s.detect_envelope(det))
        } else {
            EnvInst::Direct(det)
        }
    });
    let first = match built {
        None => {
            out.line(&json!({"ev":"reset","comp":"env","cfg":cfg,"r":r_panic(),"o":{"ok":false}}));
            return;
        }
        Some(r) => r,
    };
    out.line(&json!({"ev":"reset","comp":"env","cfg":cfg,"r":r_unit(),"o":hints}));
    let mut insts: Vec<Option<(EnvInst<[S; N], D>, Sh)>> = vec![Some((first, shadow))];
    for op in ops {
        let ev = op["ev"].as_str().unwrap();
        let i = inst(op, "i");
        if i >= insts.len() || insts[i].is_none() {
            out.ev(ev, json!({"i": i}), r_panic(), json!({}), [0, 0, 0]);
            continue;
        }
        let unit = |ok: bool| if ok { r_unit() } else { r_panic() };
        // events are named after what the instance IS (bare detector / adaptor), whatever the stimulus called them
        let sig = matches!(insts[i].as_ref().unwrap().0, EnvInst::Sig(_));
        let name = |base: &str| if sig { format!("env_sig_{}", base) } else { format!("env_{}", base) };
        match ev {
            "env_next" | "env_sig_next" => {
                let x = dec_frame::<S, N>(&op["a"]["x"]);
                offer(&queue, x);
                let (inst, sh) = insts[i].as_mut().unwrap();
                let (r, h, _) = measured(|| {
                    catch(|| match inst {
                        EnvInst::Direct(d) => d.next(x),
                        EnvInst::Sig(s) => s.next(),
                    })
                });
                let o = match catch(|| sh(x)) {
                    Some(d) => json!({"det": enc_frame(&d)}),
                    None => json!({"det": []}),
                };
                let r = match r {
                    None => r_panic(),
                    Some(f) => r_val(enc_frame(&f)),
                };
                out.ev(&name("next"), json!({"i": i, "x": enc_frame(&x)}), r, o, h);
            }
            "env_set" | "env_sig_set" => {
                let which = op["a"]["which"].as_str().unwrap();
                let mut a = op["a"].clone();
                a["i"] = json!(i);
                a["nz"] = flag(&a["nz"]);
                let fr = frames_of(&a["tq"], &a["nz"]);
                a["nz"] = json!(is_neg_zero(fr) as u64);
                let inst = &mut insts[i].as_mut().unwrap().0;
                let (r, h, _) = measured(|| {
                    catch(|| match (inst, which) {
                        (EnvInst::Direct(d), "attack") => d.set_attack_frames(fr),
                        (EnvInst::Direct(d), "release") => d.set_release_frames(fr),
                        (EnvInst::Sig(s), "attack") => s.set_attack_frames(fr),
                        (EnvInst::Sig(s), "release") => s.set_release_frames(fr),
                        _ => panic!("unknown setter {}", which),
                    })
                });
                out.ev(&name("set"), a, unit(r.is_some()), json!({"hint": f32f(hint(fr))}), h);
            }
            // `{:?}` of the detector (derived Debug: frame, detection -- for RMS detection the Rms with its window --,
            // gains) into a sink without heap memory.  DetectEnvelope implements no Debug: on an adaptor
            // instance the event is not executed.
            "env_fmt" => {
                if let EnvInst::Direct(d) = &insts[i].as_ref().unwrap().0 {
                    let (r, o, h) = fmt_call(d);
                    out.ev("env_fmt", json!({"i": i}), r, o, h);
                }
            }
            "env_clone" | "env_sig_clone" => {
                let j = insts.len();
                let (inst, sh) = insts[i].as_ref().unwrap();
                let (c, h, _) = measured(|| {
                    catch(|| match inst {
                        EnvInst::Direct(d) => EnvInst::Direct(d.clone()),
                        EnvInst::Sig(s) => EnvInst::Sig(s.clone()),
                    })
                });
                let sh2 = sh.clone();
                let r = unit(c.is_some());
                insts.push(c.map(|c| (c, sh2)));
                out.ev(&name("clone"), json!({"i": i, "j": j}), r, json!({}), h);
            }
            "env_move" | "env_sig_move" | "env_wrap" | "env_sig_parts" | "env_flip" => {
                let (inst, sh) = insts[i].take().unwrap();
                let q = queue.clone();
                // env_flip (stimuli only): wrap a bare detector, take an adaptor apart -- logged under the real name
                let ev = match ev {
                    "env_flip" if sig => "env_sig_parts",
                    "env_flip" => "env_wrap",
                    e => e,
                };
                let (label, want_sig) = match ev {
                    "env_wrap" => ("env_wrap".to_string(), false),
                    "env_sig_parts" => ("env_sig_parts".to_string(), true),
                    _ => (name("move"), sig),
                };
                let (m, h, _) = measured(|| {
                    catch(|| {
                        if want_sig != sig {
                            panic!("{}: wrong kind of instance {}", ev, i);
                        }
                        match (inst, ev) {
                            (EnvInst::Direct(d), "env_wrap") => EnvInst::Sig(Source::Feed(q).detect_envelope(d)),
                            (EnvInst::Sig(s), "env_sig_parts") => EnvInst::Direct(s.into_parts().1),
                            (EnvInst::Direct(d), _) => EnvInst::Direct(relocate(d)),
                            (EnvInst::Sig(s), _) => EnvInst::Sig(relocate(s)),
                        }
                    })
                });
                let r = unit(m.is_some());
                insts[i] = m.map(|m| (m, sh));
                out.ev(&label, json!({"i": i}), r, json!({}), h);
            }
            _ => panic!("unknown envelope op {}", ev),
        }
    }
}

/// constructor entry points (cfg.ctor) of a peak detector; all build the same detector:
///   "named" Detector::peak / peak_positive_half_wave / peak_negative_half_wave
///   "new"   Detector::new(Peak::full_wave() / positive_half_wave() / negative_half_wave(), ..)
///   "rect"  Detector::peak_from_rectifier(FullWave / PositiveHalfWave / NegativeHalfWave, ..)
///   "from"  Detector::new(Peak::from(rectifier), ..)
fn ctor_of(reset: &Value) -> String {
    reset["cfg"]["ctor"].as_str().unwrap_or("named").to_string()
}
fn env_full<S, const N: usize>(out: &mut Out, reset: &Value, ops: &[Value])
where
    S: Fmt,
    S::Signed: Fmt,
{
    let c = ctor_of(reset);
    env_run::<S, S::Signed, _, _, N>(
        out,
        reset,
        ops,
        move |a, r| match c.as_str() {
            "named" => Detector::peak(a, r),
            "new" => Detector::new(Peak::full_wave(), a, r),
            "rect" => Detector::peak_from_rectifier(peak::FullWave, a, r),
            "from" => Detector::new(Peak::from(peak::FullWave), a, r),
            c => panic!("unknown constructor {}", c),
        },
        |f| peak::full_wave(f),
    )
}
fn env_pos<S: Fmt, const N: usize>(out: &mut Out, reset: &Value, ops: &[Value]) {
    let c = ctor_of(reset);
    env_run::<S, S, _, _, N>(
        out,
        reset,
        ops,
        move |a, r| match c.as_str() {
            "named" => Detector::peak_positive_half_wave(a, r),
            "new" => Detector::new(Peak::positive_half_wave(), a, r),
            "rect" => Detector::peak_from_rectifier(peak::PositiveHalfWave, a, r),
            "from" => Detector::new(Peak::from(peak::PositiveHalfWave), a, r),
            c => panic!("unknown constructor {}", c),
        },
        |f| peak::positive_half_wave(f),
    )
}
fn env_neg<S: Fmt, const N: usize>(out: &mut Out, reset: &Value, ops: &[Value]) {
    let c = ctor_of(reset);
    env_run::<S, S, _, _, N>(
        out,
        reset,
        ops,
        move |a, r| match c.as_str() {
            "named" => Detector::peak_negative_half_wave(a, r),
            "new" => Detector::new(Peak::negative_half_wave(), a, r),
            "rect" => Detector::peak_from_rectifier(peak::NegativeHalfWave, a, r),
            "from" => Detector::new(Peak::from(peak::NegativeHalfWave), a, r),
            c => panic!("unknown constructor {}", c),
        },
        |f| peak::negative_half_wave(f),
    )
}
/// RMS detection: "named" = Detector::rms(ring buffer, ..), anything else = Detector::new(Rms::new(ring buffer), ..);
/// cfg.store = "vec" | "box" is the ring storage
fn env_rms_st<S, St, const N: usize>(out: &mut Out, reset: &Value, ops: &[Value], win: impl Fn() -> Fixed<St>)
where
    S: Fmt,
    S::Float: Fmt,
    St: Slice<Element = FF<S, N>> + SliceMut + Clone + std::fmt::Debug,
{
    let c = ctor_of(reset);
    let mut sh = Rms::<[S; N], St>::new(win());
    let w = win();
    env_run::<S, S::Float, _, _, N>(
        out,
        reset,
        ops,
        move |a, r| if c == "named" { Detector::rms(w, a, r) } else { Detector::new(Rms::new(w), a, r) },
        move |f| sh.next(f),
    )
}
fn env_rms<S, const N: usize>(out: &mut Out, reset: &Value, ops: &[Value])
where
    S: Fmt,
    S::Float: Fmt,
{
    let n = reset["cfg"]["n"].as_u64().unwrap() as usize;
    match reset["cfg"]["store"].as_str().unwrap_or("vec") {
        "vec" => env_rms_st::<S, Vec<FF<S, N>>, N>(out, reset, ops, || Fixed::from(eq_window::<S, N>(n))),
        "box" => env_rms_st::<S, Box<[FF<S, N>]>, N>(out, reset, ops, || Fixed::from(eq_window::<S, N>(n).into_boxed_slice())),
        s => panic!("rms detector: unsupported ring storage {}", s),
    }
}

fn env_exec(out: &mut Out, ex: &[Value]) {
    let cfg = &ex[0]["cfg"];
    let fmt = cfg["fmt"].as_str().unwrap().to_string();
    let ch = cfg["ch"].as_u64().unwrap();
    macro_rules! go {
        ($f:ident) => {
            by_fmt_ch!([f32 "f32", f64 "f64", i16 "i16"], $f, fmt.as_str(), ch, (out, &ex[0], &ex[1..]))
        };
    }
    match cfg["det"].as_str().unwrap() {
        "full" => go!(env_full),
        "pos" => go!(env_pos),
        "neg" => go!(env_neg),
        "rms" => go!(env_rms),
        d => panic!("unknown detection {}", d),
    }
}

// ---------------------------------------------------------------------------- seeded random stimuli

/// random finite float: sign * (1 + frac) * 2^e, e uniform in [emin, emax]; full mantissa
fn rf64(rng: &mut Rng, emin: i64, emax: i64) -> f64 {
    let e = rng.range(emin, emax);
    let frac = (rng.next() >> 11) as f64 / (1u64 << 53) as f64;
    let v = (1.0 + frac) * (2.0f64).powi(e as i32);
    if rng.chance(1, 2) {
        -v
    } else {
        v
    }
}
fn bits_of(fmt: &str) -> u32 {
    match fmt {
        "i8" | "u8" => 8,
        "i16" | "u16" => 16,
        "i24" | "u24" => 24,
        "i32" | "u32" | "f32" => 32,
        "i48" | "u48" => 48,
        _ => 64,
    }
}
/// one sample of format `fmt` in native encoding; `loud` = exponent offset of the current passage.
/// Floats stay within 2^-24 <= |x| <= 2^12 (or 0); integers are uniform over a random bit width.
fn sample(rng: &mut Rng, fmt: &str, loud: i64, avoid_min: bool) -> Value {
    match fmt {
        "f32" => {
            if rng.chance(1, 40) {
                return f32f(0.0);
            }
            f32f(rf64(rng, -9 + loud, -1 + loud) as f32)
        }
        "f64" => {
            if rng.chance(1, 40) {
                return f64f(0.0);
            }
            f64f(rf64(rng, -9 + loud, -1 + loud))
        }
        _ => {
            let bits = bits_of(fmt);
            let signed = fmt.starts_with('i');
            let w = (rng.range(2, bits as i64) + loud.min(0)).max(1) as u32; // magnitude width
            let mag = (rng.next() as u128 | ((rng.next() as u128) << 64)) & ((1u128 << (w - 1)) - 1);
            let mut amp = if rng.chance(1, 2) { -(mag as i128) - 1 } else { mag as i128 };
            if avoid_min && amp == -(1i128 << (bits - 1)) {
                amp += 1;
            }
            big(if signed { amp } else { amp + (1i128 << (bits - 1)) })
        }
    }
}
fn frame(rng: &mut Rng, fmt: &str, ch: usize, loud: i64, exact: bool, avoid_min: bool) -> Value {
    Value::Array(
        (0..ch)
            .map(|_| if exact { json!({"d": [rng.range(-8, 8), 4]}) } else { sample(rng, fmt, loud, avoid_min) })
            .collect(),
    )
}

fn gen_rms(rng: &mut Rng, crng: &mut Rng, frng: &mut Rng, thorough: bool, execs: &mut Vec<Vec<Value>>) {
    let fmts = ["f32", "f64", "i8", "i16", "i32", "u16"];
    // (window, how many executions): every history is 50 * window frames long
    let plan: &[(usize, usize)] = if thorough {
        &[(1, 12), (2, 12), (3, 12), (4, 8), (5, 8), (7, 6), (8, 6), (16, 6), (31, 3), (32, 3), (63, 2), (64, 4)]
    } else {
        &[(1, 6), (2, 6), (3, 4), (4, 3), (8, 2), (16, 1), (33, 1), (64, 1)]
    };
    let mut k = 0usize;
    for &(n, count) in plan {
        for _ in 0..count {
            let fmt = fmts[k % 6];
            let ch = if n >= 32 && !thorough { 1 + k % 2 } else { 1 + (k / 6 + k) % 4 };
            let via = if k % 4 == 3 { "signal" } else { "direct" };
            // value regime: steady level (tight bound throughout) / loud bursts and quiet stretches
            // (exercises the drift the budget must admit) / exact-arithmetic domain
            let exact = k % 3 == 2;
            let bursty = k % 3 == 1;
            k += 1;
            let total = 50 * n;
            // the adaptor over a finite source that is read past its end (every other adaptor run)
            let srclen = if via == "signal" && k % 8 == 4 { Some(rng.below(total as u64 * 3 / 4 + 1) as usize) } else { None };
            // (choices that are new in round 4 draw from `crng`, so that `rng` yields the values it always did)
            // clone scenario (every other execution that is not a finite-source run): the detector / the adaptor is
            // cloned at random positions (up to 3 instances), every later operation goes to a random instance --
            // so the copies see DIFFERENT inputs --, instances are moved, adaptors taken apart (sig_parts)
            let cloning = srclen.is_none() && k % 2 == 0;
            // ring storage handed to Rms::new / .rms(): Vec, Box<[T]>, [T; n] (n <= 4), &mut [T] (cannot be cloned)
            let store = if via == "signal" {
                *crng.pick(&["vec", "box"])
            } else {
                let mut c = vec!["vec", "box"];
                if n <= 4 {
                    c.push("array");
                }
                if !cloning {
                    c.push("slice");
                    c.push("slice");
                }
                *crng.pick(&c)
            };
            let src = if cloning { "gen" } else { "iter" };
            let mut ex = vec![match srclen {
                Some(sl) => json!({"ev":"reset","comp":"rms","cfg":{"n":n,"fmt":fmt,"ch":ch,"via":via,"srclen":sl,"store":store,"src":src}}),
                None => json!({"ev":"reset","comp":"rms","cfg":{"n":n,"fmt":fmt,"ch":ch,"via":via,"store":store,"src":src}}),
            }];
            let mut vias: Vec<&str> = vec![via]; // what each instance is at the moment
            let mut loud = 0i64;
            for i in 0..total {
                if let Some(sl) = srclen {
                    if i >= sl {
                        let z = Value::Array((0..ch).map(|_| json!({"d": [0, 4]})).collect());
                        ex.push(json!({"ev": if rng.chance(1, 2) {"sig_next"} else {"sig_next_squared"}, "a": {"i": 0, "x": z}}));
                        continue;
                    }
                }
                if cloning {
                    let every = (total as u64 / 3).max(2);
                    if vias.len() < 3 && crng.chance(1, every) {
                        let s = crng.below(vias.len() as u64) as usize;
                        ex.push(json!({"ev": if vias[s] == "signal" {"sig_clone"} else {"rms_clone"}, "a": {"i": s, "j": vias.len()}}));
                        vias.push(vias[s]);
                    }
                    if crng.chance(1, every) {
                        let s = crng.below(vias.len() as u64) as usize;
                        ex.push(json!({"ev": if vias[s] == "signal" {"sig_move"} else {"rms_move"}, "a": {"i": s}}));
                    }
                    if crng.chance(1, 2 * every) {
                        let s = crng.below(vias.len() as u64) as usize;
                        if vias[s] == "signal" {
                            ex.push(json!({"ev": "sig_parts", "a": {"i": s}}));
                            vias[s] = "direct";
                        }
                    }
                }
                let t = if vias.len() > 1 { crng.below(vias.len() as u64) as usize } else { 0 };
                // (round 5, own generator `frng`) the bare detector is rendered with {:?} now and then
                if vias[t] == "direct" && frng.chance(1, 24) {
                    ex.push(json!({"ev":"rms_fmt","a":{"i":t}}));
                }
                // passages: mostly normal level, sometimes a loud burst or a quiet stretch
                if bursty && rng.chance(1, (2 * n as u64).max(8)) {
                    loud = *rng.pick(&[0, 0, 0, 10, 12, -12, -6, 4]);
                }
                let x = frame(rng, fmt, ch, loud, exact, false);
                let p = rng.below(100);
                if vias[t] == "signal" {
                    ex.push(json!({"ev": if p < 60 {"sig_next"} else {"sig_next_squared"}, "a": {"i": t, "x": x}}));
                } else if p < 55 {
                    ex.push(json!({"ev":"next","a":{"i":t,"x":x}}));
                } else if p < 90 {
                    ex.push(json!({"ev":"next_squared","a":{"i":t,"x":x}}));
                } else if p < 97 {
                    ex.push(json!({"ev":"current","a":{"i":t,"z":0}}));
                } else if p < 99 || n > 8 {
                    ex.push(json!({"ev":"next","a":{"i":t,"x":x}}));
                } else {
                    ex.push(json!({"ev":"rms_reset","a":{"i":t,"z":0}}));
                    ex.push(json!({"ev":"current","a":{"i":t,"z":0}}));
                }
            }
            if via == "direct" {
                // a reset deep into the history, then a fresh window's worth of frames
                ex.push(json!({"ev":"rms_reset","a":{"i":0,"z":0}}));
                ex.push(json!({"ev":"current","a":{"i":0,"z":0}}));
                for _ in 0..(n + 2) {
                    let x = frame(rng, fmt, ch, 0, exact, false);
                    ex.push(json!({"ev": if rng.chance(1, 2) {"next"} else {"next_squared"}, "a": {"i": 0, "x": x}}));
                }
                ex.push(json!({"ev":"current","a":{"i":0,"z":0}}));
            }
            // the copies that were not reset still hold their own windows
            for (s, v) in vias.iter().enumerate().skip(1) {
                if *v == "direct" {
                    ex.push(json!({"ev":"current","a":{"i":s,"z":0}}));
                }
            }
            execs.push(ex);
        }
    }
}

/// A loud frame whose square absorbs the following tiny one, silence until the loud frame has left the
/// window (the running sum is then exactly zero although the window still holds the tiny square), a
/// reset, and a quiet passage at the tiny level: "a reset restores the all-zero state".
fn gen_rms_absorb(rng: &mut Rng, thorough: bool, execs: &mut Vec<Vec<Value>>) {
    let cases: &[(&str, i64)] = &[("f32", -14), ("f64", -30), ("i16", 0), ("i32", 0), ("u16", 0), ("i8", 0)];
    for rep in 0..(if thorough { 5 } else { 1 }) {
        for &(fmt, texp) in cases {
            let n = 2 + (rng.below(if thorough { 7 } else { 3 }) as usize + rep) % 7;
            let ch = 1 + rng.below(2) as usize;
            let bits = bits_of(fmt);
            let (loud, tiny, zero): (Value, Value, Value) = match fmt {
                "f32" => (f32f(-0.75), f32f((2.0f64).powi(texp as i32) as f32), f32f(0.0)),
                "f64" => (f64f(0.75), f64f((2.0f64).powi(texp as i32)), f64f(0.0)),
                _ => {
                    let half = 1i128 << (bits - 1);
                    let off = if fmt.starts_with('i') { 0 } else { half };
                    (big(-half + off), big(1 + off), big(off))
                }
            };
            let fr = |v: &Value| Value::Array((0..ch).map(|_| v.clone()).collect());
            let mut ex = vec![json!({"ev":"reset","comp":"rms","cfg":{"n":n,"fmt":fmt,"ch":ch,"via":"direct"}})];
            ex.push(json!({"ev":"next_squared","a":{"x":fr(&loud)}}));
            ex.push(json!({"ev":"next_squared","a":{"x":fr(&tiny)}}));
            for _ in 0..(n - 1) {
                ex.push(json!({"ev":"next","a":{"x":fr(&zero)}}));
            }
            ex.push(json!({"ev":"rms_reset","a":{"z":0}}));
            ex.push(json!({"ev":"current","a":{"z":0}}));
            for _ in 0..(2 * n + 1) {
                ex.push(json!({"ev": if rng.chance(1, 2) {"next"} else {"next_squared"}, "a":{"x":fr(&tiny)}}));
            }
            ex.push(json!({"ev":"current","a":{"z":0}}));
            execs.push(ex);
        }
    }
}

/// The value range of the float formats (round 5): whole executions placed in one region of magnitudes, from just
/// below the point where the window's sum of squares would overflow down to inputs whose squares are subnormal
/// or vanish.  Region E: samples (1 + frac) 2^e, full mantissa, e in E-9 .. E-1, with passages shifted toward
/// the middle of the range by up to 12 binary orders.  The regions straddle the landmarks of BOTH formats for f64
/// frames (mean squares around f32::MAX and around the smallest f32 subnormal) -- an f64 path that passes
/// through single precision anywhere shows there.  The domain ends where N x^2 could come within two binary
/// orders of the format's largest finite value (Trace_Rms: InputOK); the generator stays inside for N <= 64.
fn gen_rms_range(rng: &mut Rng, thorough: bool, execs: &mut Vec<Vec<Value>>) {
    let regions: &[(&str, i64)] = &[
        ("f64", 505), ("f64", 300), ("f64", 75), ("f64", 64), ("f64", 40), ("f64", -40), ("f64", -70), ("f64", -300),
        ("f64", -500), ("f64", -515), ("f64", -540),
        ("f32", 59), ("f32", 30), ("f32", -30), ("f32", -58), ("f32", -66), ("f32", -80), ("f32", -125),
    ];
    let wins = [1usize, 2, 3, 5, 8, 64, 4, 16, 33];
    let mut k = 0usize;
    for rep in 0..(if thorough { 4 } else { 1 }) {
        for &(fmt, e0) in regions {
            let n = wins[(k + rep) % wins.len()];
            let ch = 1 + (k + rep) % 3;
            let via = if k % 5 == 4 { "signal" } else { "direct" };
            let store = if via == "signal" { *rng.pick(&["vec", "box"]) } else if n <= 4 { *rng.pick(&["vec", "array", "slice"]) } else { *rng.pick(&["vec", "box", "slice"]) };
            k += 1;
            let mut ex = vec![json!({"ev":"reset","comp":"rms","cfg":{"n":n,"fmt":fmt,"ch":ch,"via":via,"store":store,"src":"iter"}})];
            let total = (6 * n).max(24).min(130);
            let toward_middle: i64 = if e0 > 0 { -1 } else { 1 };
            let mut shift = 0i64;
            for _ in 0..total {
                if rng.chance(1, (2 * n as u64).max(8)) {
                    shift = toward_middle * *rng.pick(&[0, 0, 0, 6, 10, 12]);
                }
                let x = frame(rng, fmt, ch, e0 + shift, false, false);
                let p = rng.below(100);
                if via == "signal" {
                    ex.push(json!({"ev": if p < 60 {"sig_next"} else {"sig_next_squared"}, "a": {"i": 0, "x": x}}));
                } else if p < 50 {
                    ex.push(json!({"ev":"next","a":{"i":0,"x":x}}));
                } else if p < 85 {
                    ex.push(json!({"ev":"next_squared","a":{"i":0,"x":x}}));
                } else if p < 95 {
                    ex.push(json!({"ev":"current","a":{"i":0,"z":0}}));
                } else {
                    ex.push(json!({"ev":"rms_reset","a":{"i":0,"z":0}}));
                    ex.push(json!({"ev":"current","a":{"i":0,"z":0}}));
                }
            }
            if via == "direct" {
                ex.push(json!({"ev":"rms_reset","a":{"i":0,"z":0}}));
                for _ in 0..(n.min(8) + 1) {
                    let x = frame(rng, fmt, ch, e0, false, false);
                    ex.push(json!({"ev": if rng.chance(1, 2) {"next"} else {"next_squared"}, "a": {"i": 0, "x": x}}));
                }
                ex.push(json!({"ev":"current","a":{"i":0,"z":0}}));
            }
            execs.push(ex);
        }
    }
}

fn gen_env(rng: &mut Rng, crng: &mut Rng, frng: &mut Rng, thorough: bool, execs: &mut Vec<Vec<Value>>) {
    // rectifiers: random values of every width on all 14 formats x 1..4 channels
    let all = ["i8", "i16", "i24", "i32", "i48", "i64", "u8", "u16", "u24", "u32", "u48", "u64", "f32", "f64"];
    let per = if thorough { 60 } else { 12 };
    for fmt in all {
        for ch in 1..=4usize {
            let mut ex = vec![json!({"ev":"reset","comp":"rect","cfg":{"fmt":fmt,"ch":ch}})];
            for _ in 0..per {
                let loud = *rng.pick(&[0, 0, 6, -6]);
                let x = frame(rng, fmt, ch, loud, false, false);
                // the free functions, or the Rectifier implementations FullWave / PositiveHalfWave / NegativeHalfWave
                let by = *crng.pick(&["fn", "trait"]);
                ex.push(json!({"ev":"rect","a":{"kind": *rng.pick(&["full","pos","neg"]), "by": by, "x": x}}));
            }
            execs.push(ex);
        }
    }
    // detector
    let times = [0u64, 4, 8, 20, 256, 2, 1]; // quarter frames: 0, 1, 2, 5, 64, 1/2, 1/4
    let fmts = ["f32", "f64", "i16"];
    let dets = ["full", "pos", "neg", "rms"];
    let count = if thorough { 360 } else { 48 };
    // a zero time is passed as IEEE negative zero (-0.0 == 0.0: a zero time too) one time in three
    fn nz_of(rng: &mut Rng, tq: u64) -> u64 {
        (tq == 0 && rng.chance(1, 3)) as u64
    }
    for k in 0..count {
        let fmt = fmts[k % 3];
        let det = dets[(k / 3) % 4];
        let ch = 1 + (k / 12 + k) % 4;
        let via = if k % 5 == 4 { "signal" } else { "direct" };
        let n = if det == "rms" { *rng.pick(&[1usize, 2, 3, 8]) } else { 0 };
        let len = rng.range(40, if thorough { 160 } else { 90 }) as usize;
        // deliberate scenarios (k % 7 and k % 10 meet every format; both meet every detection kind over the run):
        //  zero phase: attack = release = 0 for a stretch (from the start, or switched to mid-run), then a
        //    non-zero time -- the smoothing must continue from the last envelope yielded in the zero phase;
        //  finite source: every other adaptor run reads its source past the end (cfg.srclen): the later
        //    events carry equilibrium frames and the release tail must keep decaying (release > 0 there).
        let zero_phase: Option<(usize, usize)> = match k % 7 {
            3 => Some((0, len / 3)),               // zero times from construction
            5 => Some((len / 3, 2 * len / 3)),     // switched to zero mid-run
            _ => None,
        };
        // (where both scenarios meet, the source ends after the zero phase)
        let srclen = if via == "signal" && k % 10 == 4 {
            Some(rng.range(len as i64 / if zero_phase.is_some() { 2 } else { 4 }, 3 * len as i64 / 4) as usize)
        } else {
            None
        };
        let (mut ta, mut tr) = (times[rng.below(6) as usize], times[rng.below(6) as usize]);
        if let Some((0, _)) = zero_phase {
            ta = 0;
            tr = 0;
        } else if srclen.is_some() && tr == 0 {
            tr = times[1 + rng.below(4) as usize];
        }
        let (nza, nzr) = (nz_of(rng, ta), nz_of(rng, tr));
        // (choices that are new in round 4 draw from `crng`, so that `rng` yields the values it always did)
        // clone scenario (every other execution outside the two scenarios above): the detector / the adaptor is cloned
        // at random positions (up to 3 instances), every later frame and setter goes to a random instance -- the copies
        // see DIFFERENT inputs and settings --, instances are moved, put on the adaptor and taken off it again
        let cloning = zero_phase.is_none() && srclen.is_none() && k % 2 == 0;
        let ctor = *crng.pick(&["named", "new", "rect", "from"]);
        let store = *crng.pick(&["vec", "box"]);
        let mut live = 1usize;
        let mut ex = vec![json!({"ev":"reset","comp":"env","cfg":{"fmt":fmt,"ch":ch,"det":det,"n":n,
                                 "attack":ta,"release":tr,"nza":nza,"nzr":nzr,"via":via,
                                 "srclen": srclen.map(|v| v as i64).unwrap_or(-1),
                                 "src": if cloning {"gen"} else {"iter"}, "ctor": ctor, "store": store}})];
        let set_ev = if via == "signal" { "env_sig_set" } else { "env_set" };
        let next_ev = if via == "signal" { "env_sig_next" } else { "env_next" };
        // input shapes: rising ramp, falling ramp, constant stretches, noise
        let shape = k % 4;
        let mut level: Vec<f64> = (0..ch).map(|_| if shape == 1 { 0.9 } else { 0.02 }).collect();
        let mut i = 0;
        while i < len {
            if cloning {
                let every = (len as u64 / 3).max(2);
                if live < 3 && crng.chance(1, every) {
                    ex.push(json!({"ev": "env_clone", "a": {"i": crng.below(live as u64), "j": live}}));
                    live += 1;
                }
                if crng.chance(1, every) {
                    ex.push(json!({"ev": "env_move", "a": {"i": crng.below(live as u64)}}));
                }
                if crng.chance(1, every) {
                    ex.push(json!({"ev": "env_flip", "a": {"i": crng.below(live as u64)}}));
                }
            }
            // the instance this step's setter / frame goes to
            let t = if live > 1 { crng.below(live as u64) } else { 0 };
            // (round 5, own generator `frng`) the detector is rendered with {:?} now and then (the driver executes it
            // when the instance is a bare detector at that moment; the adaptor has no Debug)
            if frng.chance(1, 16) {
                ex.push(json!({"ev": "env_fmt", "a": {"i": t}}));
            }
            let in_zero = zero_phase.map_or(false, |(a, b)| a <= i && i < b);
            if let Some((a, b)) = zero_phase {
                if i == a && a > 0 {
                    // both times to zero (either order)
                    let first = rng.below(2) as usize;
                    for w in [first, 1 - first] {
                        let which = ["attack", "release"][w];
                        ex.push(json!({"ev": set_ev, "a": {"i": 0, "which": which, "tq": 0, "nz": nz_of(rng, 0)}}));
                    }
                }
                if i == b {
                    // end of the zero phase: BOTH times non-zero (either order), so that whichever gain the
                    // next frame picks, it smooths from the envelope last yielded in the phase
                    let first = rng.below(2) as usize;
                    for w in [first, 1 - first] {
                        let which = ["attack", "release"][w];
                        ex.push(json!({"ev": set_ev, "a": {"i": 0, "which": which, "tq": times[1 + rng.below(6) as usize], "nz": 0}}));
                    }
                }
            }
            let at_end = zero_phase.map_or(false, |(_, b)| i == b);
            if !in_zero && !at_end && rng.chance(1, 18) {
                let which = *rng.pick(&["attack", "release"]);
                // a finite-source run keeps its release time non-zero (the tail is the point of it)
                let tq = if srclen.is_some() && which == "release" { times[1 + rng.below(6) as usize] } else { times[rng.below(7) as usize] };
                ex.push(json!({"ev": set_ev, "a": {"i": t, "which": which, "tq": tq, "nz": nz_of(rng, tq)}}));
            }
            if srclen.map_or(false, |sl| i >= sl) {
                // past the end of the source: equilibrium
                let z = match fmt {
                    "f32" => f32f(0.0),
                    "f64" => f64f(0.0),
                    _ => big(0),
                };
                ex.push(json!({"ev": next_ev, "a": {"i": 0, "x": Value::Array((0..ch).map(|_| z.clone()).collect())}}));
                i += 1;
                continue;
            }
            let x: Vec<Value> = (0..ch)
                .map(|c| {
                    match shape {
                        0 => level[c] = (level[c] + 0.9 / len as f64).min(0.95),
                        1 => level[c] = (level[c] - 0.9 / len as f64).max(0.0),
                        2 => {
                            if rng.chance(1, 15) {
                                level[c] = rng.below(1000) as f64 / 1050.0;
                            }
                        }
                        _ => level[c] = rng.below(1000) as f64 / 1050.0,
                    }
                    // full-precision value near the level, either sign (the rectifier decides)
                    let jitter = if shape == 2 { 0.0 } else { (rng.below(1 << 20) as f64) * 1e-9 };
                    let v = (level[c] + jitter) * if rng.chance(1, 2) { -1.0 } else { 1.0 };
                    match fmt {
                        "f32" => f32f(v as f32),
                        "f64" => f64f(v),
                        _ => big(((v * 32767.0) as i64).clamp(-32767, 32767) as i128),
                    }
                })
                .collect();
            ex.push(json!({"ev": next_ev, "a": {"i": t, "x": x}}));
            i += 1;
        }
        execs.push(ex);
    }
}

fn main() {
    let args: Vec<String> = std::env::args().collect();
    let c = cli();
    silence_panics();
    match c.mode.as_str() {
        "gen" => {
            let seed: u64 = c.a1.parse().unwrap();
            let thorough = c.a2 == "thorough";
            let only = args.get(5).map(|s| s.as_str()).unwrap_or("all");
            let mut execs = Vec::new();
            if only == "all" || only == "rms" {
                gen_rms(&mut Rng::new(seed ^ 0x11), &mut Rng::new(seed ^ 0x1c11), &mut Rng::new(seed ^ 0x1f11), thorough, &mut execs);
                gen_rms_absorb(&mut Rng::new(seed ^ 0x13), thorough, &mut execs);
                gen_rms_range(&mut Rng::new(seed ^ 0x1511), thorough, &mut execs);
            }
            if only == "all" || only == "env" {
                gen_env(&mut Rng::new(seed ^ 0x19), &mut Rng::new(seed ^ 0x1c19), &mut Rng::new(seed ^ 0x1f19), thorough, &mut execs);
            }
            write_stimuli(&c.a3, &execs);
        }
        "run" => {
            let n = drive(&c.a1, &c.a2, |out, ex| match ex[0]["comp"].as_str().unwrap() {
                "rms" => rms_exec(out, ex),
                "rect" => rect_exec(out, ex),
                "env" => env_exec(out, ex),
                c => panic!("unknown component {}", c),
            });
            eprintln!("hx_dsp1: {} events", n);
        }
        _ => {
            eprintln!("usage: hx_dsp1 run <stimuli> <trace> | gen <seed> <quick|thorough> <stimuli> [rms|env]");
            std::process::exit(2);
        }
    }
}
