//! Driver + logger for dasp_rms::Rms through its own API (new over every ring storage / next /
//! next_squared / current / reset / window_frames / Clone / moves).  Shared (via #[path]) by the std
//! harness hx_dsp1 and the no_std-configured harness_nostd/hx_rms_nostd; `build` says which one is
//! running and goes into the header.  No expected values: Trace_Rms.tla is the judge.
//!
//! An execution owns a growing list of detector INSTANCES: instance 0 is built by the header, every
//! `rms_clone {i, j}` appends instance j = a `Clone` of instance i, and every event names the
//! instance it acts on (`a.i`, 0 when absent).  `rms_move {i}` moves instance i to a new place in
//! memory (through a Box) -- a move is not an operation of the model, the instance just goes on.
use crate::fmt::*;
use dasp_ring_buffer::{Fixed, Slice, SliceMut};
use dasp_rms::Rms;
use hx_common::*;
use serde_json::{json, Value};
use std::fmt::Debug;

pub type FF<S, const N: usize> = [<S as dasp_sample::Sample>::Float; N];

/// instance index of an event (0 when the stimulus does not name one)
pub fn inst(op: &Value, key: &str) -> usize {
    op["a"][key].as_u64().unwrap_or(0) as usize
}
/// move a value somewhere else in memory and back into the caller's hands
pub fn relocate<T>(t: T) -> T {
    *std::hint::black_box(Box::new(t))
}
pub fn eq_window<S: Fmt, const N: usize>(n: usize) -> Vec<FF<S, N>>
where
    S::Float: Fmt,
{
    vec![<FF<S, N> as dasp_frame::Frame>::EQUILIBRIUM; n]
}

/// A formatting sink that owns no heap memory: a fixed buffer that keeps what fits and counts the rest.
/// It never fails, so an `Err` of a rendering is the formatted value's own doing.
pub struct Sink {
    buf: [u8; 1024],
    len: usize,
    pub total: usize,
}
impl Sink {
    pub fn new() -> Sink {
        Sink { buf: [0; 1024], len: 0, total: 0 }
    }
}
impl core::fmt::Write for Sink {
    fn write_str(&mut self, s: &str) -> core::fmt::Result {
        let b = s.as_bytes();
        let k = b.len().min(self.buf.len() - self.len);
        self.buf[self.len..self.len + k].copy_from_slice(&b[..k]);
        self.len += k;
        self.total += b.len();
        Ok(())
    }
}
/// `{:?}` of a value of the library into a `Sink` (created outside the measured window): the Debug
/// implementations are operations of the object too.  Logged: unit / none (the rendering returned Err) /
/// panic, the number of bytes rendered (the text itself is nobody's business) and the heap counters.
pub fn fmt_call<T: Debug>(t: &T) -> (Value, Value, [i64; 3]) {
    let mut sink = Sink::new();
    let (r, h, _) = measured(|| {
        catch(|| {
            use core::fmt::Write;
            write!(sink, "{:?}", t)
        })
    });
    std::hint::black_box(&sink.buf[..sink.len]);
    let r = match r {
        None => r_panic(),
        Some(Ok(())) => r_unit(),
        Some(Err(_)) => r_none(),
    };
    (r, json!({"len": sink.total}), h)
}

/// the result of one call on a direct detector: None = panic, Some(None) = unit, Some(Some(f)) = a frame
pub type Ret<S, const N: usize> = Option<Option<FF<S, N>>>;

/// One call of the detector's own API (measured); the frame is decoded (and its log form built) outside
/// the measured window.  Returns (logged arguments without `i`, result, heap counters).
pub fn direct_call<S, St, const N: usize>(rms: &mut Rms<[S; N], St>, ev: &str, op: &Value, sc: i32) -> (Value, Ret<S, N>, [i64; 3])
where
    S: Fmt,
    S::Float: Fmt,
    St: Slice<Element = FF<S, N>> + SliceMut,
{
    let x: Option<[S; N]> = op["a"].get("x").map(|v| dec_frame_sc::<S, N>(v, sc));
    let a = match &x {
        Some(f) => json!({"x": enc_frame(f)}),
        None => json!({"z": 0}),
    };
    let (r, h, _) = measured(|| {
        catch(|| match ev {
            "next" => Some(rms.next(x.unwrap())),
            "next_squared" => Some(rms.next_squared(x.unwrap())),
            "current" => Some(rms.current()),
            "rms_reset" => {
                rms.reset();
                None
            }
            _ => panic!("unknown rms op {}", ev),
        })
    });
    (a, r, h)
}
pub fn ret_json<S: Fmt, const N: usize>(r: Ret<S, N>) -> Value
where
    S::Float: Fmt,
{
    match r {
        None => r_panic(),
        Some(None) => r_unit(),
        Some(Some(f)) => r_val(enc_frame(&f)),
    }
}
pub fn with_i(mut a: Value, i: usize) -> Value {
    a["i"] = json!(i);
    a
}

/// header fields every rms execution logs (defaults for stimuli that do not carry them)
pub fn rms_cfg(reset: &Value, build: &str, via: &str) -> Value {
    let mut cfg = reset["cfg"].clone();
    cfg["build"] = json!(build);
    cfg["via"] = json!(via);
    cfg["store"] = json!(cfg["store"].as_str().unwrap_or("vec"));
    cfg["src"] = json!(cfg["src"].as_str().unwrap_or("iter"));
    // the value region the stimulus values are placed in (float formats): every decoded sample times 2^sc
    cfg["sc"] = json!(cfg["sc"].as_i64().unwrap_or(0));
    cfg["profile"] = json!(profile());
    cfg
}
/// build profile of this binary (what is logged is what is running, whatever a replayed header says)
pub fn profile() -> &'static str {
    if cfg!(debug_assertions) {
        "debug"
    } else {
        "release"
    }
}
pub fn scale_of(cfg: &Value) -> i32 {
    cfg["sc"].as_i64().unwrap_or(0) as i32
}

/// `make` builds the ring buffer handed to Rms::new; `cl` clones a detector where its storage can be cloned.
pub fn rms_direct<S, St, const N: usize>(
    out: &mut Out,
    reset: &Value,
    ops: &[Value],
    build: &str,
    make: impl FnOnce(usize) -> Fixed<St>,
    cl: fn(&Rms<[S; N], St>) -> Option<Rms<[S; N], St>>,
) where
    S: Fmt,
    S::Float: Fmt,
    St: Slice<Element = FF<S, N>> + SliceMut + Debug,
{
    let cfg = rms_cfg(reset, build, "direct");
    let n = cfg["n"].as_u64().unwrap() as usize;
    let sc = scale_of(&cfg);
    let built = catch(move || Rms::<[S; N], St>::new(make(n)));
    let first = match built {
        None => {
            out.line(&json!({"ev":"reset","comp":"rms","cfg":cfg,"r":r_panic(),"o":{"ok":false,"wf":0,"cur":[]}}));
            return;
        }
        Some(r) => r,
    };
    let o = match catch(|| (first.window_frames(), first.current())) {
        Some((wf, cur)) => json!({"ok":true,"wf":wf,"cur":enc_frame(&cur)}),
        None => json!({"ok":false,"wf":0,"cur":[]}),
    };
    out.line(&json!({"ev":"reset","comp":"rms","cfg":cfg,"r":r_unit(),"o":o}));
    let mut insts: Vec<Option<Rms<[S; N], St>>> = vec![Some(first)];
    for op in ops {
        let ev = op["ev"].as_str().unwrap();
        let i = inst(op, "i");
        if i >= insts.len() {
            // no such instance: nothing can be called
            out.ev(ev, json!({"i": i, "z": 0}), r_panic(), json!({}), [0, 0, 0]);
            continue;
        }
        match ev {
            "rms_clone" => {
                let j = insts.len();
                let (c, h, _) = measured(|| catch(|| cl(insts[i].as_ref().expect("live instance")).expect("storage cannot be cloned")));
                // window_frames() and current() of the new instance right after the clone
                let o = match c.as_ref().and_then(|c| catch(|| (c.window_frames(), c.current()))) {
                    Some((wf, cur)) => json!({"ok":true,"wf":wf,"cur":enc_frame(&cur)}),
                    None => json!({"ok":false,"wf":0,"cur":[]}),
                };
                let r = if c.is_some() { r_unit() } else { r_panic() };
                insts.push(c);
                out.ev(ev, json!({"i": i, "j": j}), r, o, h);
            }
            "rms_move" => {
                let (m, h, _) = measured(|| catch(|| relocate(insts[i].take().expect("live instance"))));
                let r = if m.is_some() { r_unit() } else { r_panic() };
                insts[i] = m;
                out.ev(ev, json!({"i": i}), r, json!({}), h);
            }
            "rms_fmt" => match insts[i].as_ref() {
                Some(rms) => {
                    let (r, o, h) = fmt_call(rms);
                    out.ev(ev, json!({"i": i}), r, o, h);
                }
                None => out.ev(ev, json!({"i": i}), r_panic(), json!({"len": 0}), [0, 0, 0]),
            },
            _ => match insts[i].as_mut() {
                Some(rms) => {
                    let (a, r, h) = direct_call::<S, St, N>(rms, ev, op, sc);
                    out.ev(ev, with_i(a, i), ret_json::<S, N>(r), json!({}), h);
                }
                // the instance does not exist (its clone panicked)
                None => out.ev(ev, json!({"i": i, "z": 0}), r_panic(), json!({}), [0, 0, 0]),
            },
        }
    }
}

/// Rms::new over each kind of ring storage (cfg.store): Vec (default), Box<[T]>, a borrowed `&mut [T]`
/// and fixed-size arrays [T; n] for n = 1..4.
pub fn rms_direct_any<S, const N: usize>(out: &mut Out, reset: &Value, ops: &[Value], build: &str)
where
    S: Fmt,
    S::Float: Fmt,
{
    let n = reset["cfg"]["n"].as_u64().unwrap() as usize;
    macro_rules! arr {
        ($k:literal) => {
            rms_direct::<S, [FF<S, N>; $k], N>(
                out,
                reset,
                ops,
                build,
                |_| Fixed::from([<FF<S, N> as dasp_frame::Frame>::EQUILIBRIUM; $k]),
                |r| Some(r.clone()),
            )
        };
    }
    match reset["cfg"]["store"].as_str().unwrap_or("vec") {
        "vec" => rms_direct::<S, Vec<FF<S, N>>, N>(out, reset, ops, build, |n| Fixed::from(eq_window::<S, N>(n)), |r| Some(r.clone())),
        "box" => rms_direct::<S, Box<[FF<S, N>]>, N>(
            out,
            reset,
            ops,
            build,
            |n| Fixed::from(eq_window::<S, N>(n).into_boxed_slice()),
            |r| Some(r.clone()),
        ),
        "slice" => {
            let mut buf = eq_window::<S, N>(n);
            rms_direct::<S, &mut [FF<S, N>], N>(out, reset, ops, build, |_| Fixed::from(&mut buf[..]), |_| None)
        }
        "array" => match n {
            1 => arr!(1),
            2 => arr!(2),
            3 => arr!(3),
            4 => arr!(4),
            _ => panic!("array storage: unsupported window {}", n),
        },
        s => panic!("unknown ring storage {}", s),
    }
}

/// `by_fmt_ch!([T "name", ...], f, fmt, ch, (args))` calls `f::<T, CH>(args)` for the named format
/// and a channel count of 1..=4.
#[macro_export]
macro_rules! by_fmt_ch {
    ([$($T:ident $name:literal),*], $f:ident, $fmt:expr, $ch:expr, $args:tt) => {
        match ($fmt, $ch) {
            $( ($name, 1) => $f::<$T, 1> $args,
               ($name, 2) => $f::<$T, 2> $args,
               ($name, 3) => $f::<$T, 3> $args,
               ($name, 4) => $f::<$T, 4> $args, )*
            (f, c) => panic!("unsupported configuration {} x {}", f, c),
        }
    };
}
/// formats x channel counts the RMS runs cover
#[macro_export]
macro_rules! rms_dispatch {
    ($f:ident, $fmt:expr, $ch:expr, $args:tt) => {
        $crate::by_fmt_ch!([f32 "f32", f64 "f64", i8 "i8", i16 "i16", i32 "i32", u16 "u16"], $f, $fmt, $ch, $args)
    };
}
