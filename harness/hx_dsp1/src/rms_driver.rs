//! Driver + logger for dasp_rms::Rms through its own API (next / next_squared / current / reset /
//! window_frames).  Shared (via #[path]) by the std harness hx_dsp1 and the no_std-configured
//! harness_nostd/hx_rms_nostd; `build` says which one is running and goes into the header.
//! No expected values: Trace_Rms.tla is the judge.
use crate::fmt::*;
use dasp_ring_buffer::Fixed;
use dasp_rms::Rms;
use hx_common::*;
use serde_json::{json, Value};

pub fn rms_direct<S, const N: usize>(out: &mut Out, reset: &Value, ops: &[Value], build: &str)
where
    S: Fmt,
    S::Float: Fmt,
{
    let mut cfg = reset["cfg"].clone();
    cfg["build"] = json!(build);
    cfg["via"] = json!("direct");
    let n = cfg["n"].as_u64().unwrap() as usize;
    let built = catch(|| {
        let window: Vec<[S::Float; N]> = vec![<[S::Float; N] as dasp_frame::Frame>::EQUILIBRIUM; n];
        Rms::<[S; N], Vec<[S::Float; N]>>::new(Fixed::from(window))
    });
    let mut rms = match built {
        None => {
            out.line(&json!({"ev":"reset","comp":"rms","cfg":cfg,"r":r_panic(),"o":{"ok":false,"wf":0,"cur":[]}}));
            return;
        }
        Some(r) => r,
    };
    let o = match catch(|| (rms.window_frames(), rms.current())) {
        Some((wf, cur)) => json!({"ok":true,"wf":wf,"cur":enc_frame(&cur)}),
        None => json!({"ok":false,"wf":0,"cur":[]}),
    };
    out.line(&json!({"ev":"reset","comp":"rms","cfg":cfg,"r":r_unit(),"o":o}));
    for op in ops {
        let ev = op["ev"].as_str().unwrap();
        // the frame is decoded (and its log form built) outside the measured window
        let x: Option<[S; N]> = op["a"].get("x").map(|v| dec_frame::<S, N>(v));
        let a = match &x {
            Some(f) => json!({"x": enc_frame(f)}),
            None => json!({"z": 0}),
        };
        let (r, h, _) = measured(|| {
            catch(|| match ev {
                "next" => Some(rms.next(x.unwrap())),
                "next_squared" => Some(rms.next_squared(x.unwrap())),
                "current" => Some(rms.current()),
                "rms_reset" => {
                    rms.reset();
                    None
                }
                _ => panic!("unknown rms op {}", ev),
            })
        });
        let r = match r {
            None => r_panic(),
            Some(None) => r_unit(),
            Some(Some(f)) => r_val(enc_frame(&f)),
        };
        out.ev(ev, a, r, json!({}), h);
    }
}

/// `by_fmt_ch!([T "name", ...], f, fmt, ch, (args))` calls `f::<T, CH>(args)` for the named format
/// and a channel count of 1..=4.
#[macro_export]
macro_rules! by_fmt_ch {
    ([$($T:ident $name:literal),*], $f:ident, $fmt:expr, $ch:expr, $args:tt) => {
        match ($fmt, $ch) {
            $( ($name, 1) => $f::<$T, 1> $args,
               ($name, 2) => $f::<$T, 2> $args,
               ($name, 3) => $f::<$T, 3> $args,
               ($name, 4) => $f::<$T, 4> $args, )*
            (f, c) => panic!("unsupported configuration {} x {}", f, c),
        }
    };
}
/// formats x channel counts the RMS runs cover
#[macro_export]
macro_rules! rms_dispatch {
    ($f:ident, $fmt:expr, $ch:expr, $args:tt) => {
        $crate::by_fmt_ch!([f32 "f32", f64 "f64", i8 "i8", i16 "i16", i32 "i32", u16 "u16"], $f, $fmt, $ch, $args)
    };
}
