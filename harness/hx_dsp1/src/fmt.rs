//! The 14 dasp sample formats as the harness sees them: a name, a JSON encoding that survives
//! TLC's reader (wide integers as limbs, floats as IEEE fields) and a decoder for stimulus values.
//! Shared (via #[path]) by hx_dsp1 and harness_nostd/hx_rms_nostd.  No arithmetic on sample
//! values happens here beyond placing a stimulus value k/2^sh of full scale into the format.
use dasp_sample::types::{I24, I48, U24, U48};
use dasp_sample::Sample;
use hx_common::{big, f32f, f64f, unbig, unf32, unf64};
use serde_json::Value;

pub trait Fmt: Sample + Copy + core::fmt::Debug + 'static {
    #[allow(dead_code)]
    const NAME: &'static str;
    /// native trace encoding
    fn enc(self) -> Value;
    /// stimulus value: native encoding, or {"d":[k,sh]} = k / 2^sh of full scale about equilibrium
    fn dec(v: &Value) -> Self;
    /// the value times 2^sc (header field cfg.sc: the value region an execution is placed in).  Exact for the
    /// float formats while the product stays normal; integer formats have one scale only (sc = 0) and return self.
    fn scaled(self, _sc: i32) -> Self {
        self
    }
}

/// 2^sc as an f64 (sc within the normal range), written from the bit pattern: no arithmetic involved
pub fn pow2(sc: i32) -> f64 {
    assert!((-1022..=1023).contains(&sc), "scale out of range");
    f64::from_bits(((1023 + sc) as u64) << 52)
}

fn dy(v: &Value) -> Option<(i64, u32)> {
    v.get("d").map(|d| (d[0].as_i64().unwrap(), d[1].as_u64().unwrap() as u32))
}

macro_rules! int_fmt {
    ($T:ty, $name:expr, $bits:expr, $signed:expr, $to:expr, $from:expr) => {
        impl Fmt for $T {
            const NAME: &'static str = $name;
            fn enc(self) -> Value {
                let f: fn($T) -> i128 = $to;
                big(f(self))
            }
            fn dec(v: &Value) -> Self {
                let f: fn(i128) -> $T = $from;
                match dy(v) {
                    Some((k, sh)) => {
                        // amplitude k * 2^(bits-1-sh), re-centred for unsigned formats
                        let amp = (k as i128) << ($bits - 1 - sh);
                        f(if $signed { amp } else { amp + (1i128 << ($bits - 1)) })
                    }
                    None => f(unbig(v)),
                }
            }
        }
    };
}
int_fmt!(i8, "i8", 8, true, |x| x as i128, |v| v as i8);
int_fmt!(i16, "i16", 16, true, |x| x as i128, |v| v as i16);
int_fmt!(I24, "i24", 24, true, |x| x.inner() as i128, |v| I24::new_unchecked(v as i32));
int_fmt!(i32, "i32", 32, true, |x| x as i128, |v| v as i32);
int_fmt!(I48, "i48", 48, true, |x| x.inner() as i128, |v| I48::new_unchecked(v as i64));
int_fmt!(i64, "i64", 64, true, |x| x as i128, |v| v as i64);
int_fmt!(u8, "u8", 8, false, |x| x as i128, |v| v as u8);
int_fmt!(u16, "u16", 16, false, |x| x as i128, |v| v as u16);
int_fmt!(U24, "u24", 24, false, |x| x.inner() as i128, |v| U24::new_unchecked(v as i32));
int_fmt!(u32, "u32", 32, false, |x| x as i128, |v| v as u32);
int_fmt!(U48, "u48", 48, false, |x| x.inner() as i128, |v| U48::new_unchecked(v as i64));
int_fmt!(u64, "u64", 64, false, |x| x as i128, |v| v as u64);

impl Fmt for f32 {
    const NAME: &'static str = "f32";
    fn enc(self) -> Value {
        f32f(self)
    }
    fn dec(v: &Value) -> Self {
        match dy(v) {
            Some((k, sh)) => k as f32 / (1u64 << sh) as f32,
            None => unf32(v),
        }
    }
    fn scaled(self, sc: i32) -> Self {
        if sc == 0 {
            self
        } else {
            (self as f64 * pow2(sc)) as f32
        }
    }
}
impl Fmt for f64 {
    const NAME: &'static str = "f64";
    fn enc(self) -> Value {
        f64f(self)
    }
    fn dec(v: &Value) -> Self {
        match dy(v) {
            Some((k, sh)) => k as f64 / (1u64 << sh) as f64,
            None => unf64(v),
        }
    }
    fn scaled(self, sc: i32) -> Self {
        if sc == 0 {
            self
        } else {
            self * pow2(sc)
        }
    }
}

pub fn dec_frame<S: Fmt, const N: usize>(v: &Value) -> [S; N] {
    let a = v.as_array().expect("frame");
    assert_eq!(a.len(), N, "frame width");
    let mut i = 0;
    [(); N].map(|_| {
        let s = S::dec(&a[i]);
        i += 1;
        s
    })
}
/// a stimulus frame placed at the execution's scale (cfg.sc)
pub fn dec_frame_sc<S: Fmt, const N: usize>(v: &Value, sc: i32) -> [S; N] {
    dec_frame::<S, N>(v).map(|s| s.scaled(sc))
}
pub fn enc_frame<S: Fmt, const N: usize>(f: &[S; N]) -> Value {
    Value::Array(f.iter().map(|s| s.enc()).collect())
}
