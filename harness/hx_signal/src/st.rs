//! Statically typed adaptor stacks.
//!
//! The dynamic builder (`build` in main.rs) boxes every node, so every provided `Signal` method
//! (`scale_amp`, `delay`, `take`, ...) is called on the receiver type `Dyn`.  A method that a
//! concrete adaptor or source type overrides (`impl Signal for Delay<S> { fn delay .. }`) or shadows
//! with an inherent method (`impl<S> ScaleAmp<S> { pub fn scale_amp .. }`) is then never reached.
//! Here the RECEIVER CHAIN of a term -- the root and its first-operand descendants, `cfg.st` levels
//! deep -- is built WITHOUT boxing: `src.scale_amp(a).scale_amp(b)` really is
//! `ScaleAmp<ScaleAmp<FromIterator<..>>>`.  Second operands of the combiners are arguments, not
//! receivers: they stay boxed.  A `src` / `srcs` leaf inside the static region is the bare
//! `FromIterator` / `FromInterleavedSamplesIterator` (no `Counted` wrapper: its pull counter stays
//! 0, the spec knows -- `RawSrcs`).
//!
//! Every (receiver type, method) call site is written out with the receiver's type constructor
//! spelled in the source (`s: signal::ScaleAmp<S>` ... `s.scale_amp(g)`), exactly as user code has
//! it: method resolution then sees inherent methods of that constructor as well as its `impl
//! Signal` -- a call through a bare type parameter `S: Signal` would only ever see the trait.  The
//! sites are generated from one table (`on_all!`: one method per receiver constructor) times one
//! continuation per adaptor method.
//!
//! Building is in continuation-passing style: `Lv<D>::build(term, k)` matches the node kind, builds
//! the first operand at level `D` with a continuation that applies this node's method to the
//! receiver that arrives (through the `on_*` method of the receiver's constructor), and finally
//! hands the finished stack to the root continuation.  Levels are types (`L0` = box from here on,
//! `Lv<D>` = one concrete node over `D`), so the recursion is finite at compile time.  The same term
//! description is logged; the spec evaluates the term exactly as for a boxed one.  No expected
//! values here.
use super::*;
use std::marker::PhantomData;

pub(crate) type InspFn<F> = Box<dyn FnMut(&F)>;
pub(crate) type GenFn<F> = Box<dyn Fn() -> F>;
pub(crate) type GenMutFn<F> = Box<dyn FnMut() -> F>;

/// THE TABLE: one method per receiver type constructor, all with the same body.  `$X` = the frame
/// type of the receiver, `$s` = the receiver (typed with its constructor spelled out), `$body` is
/// expanded once per constructor.
macro_rules! on_all {
    ($X:ty, $a:lifetime, |$self_:ident, $s:ident| $body:expr) => {
        // a boxed subtree (or anything else without a constructor of interest)
        fn on_any<S: Signal<Frame = $X> + $a>($self_, $s: S) -> Self::Out { $body }
        // the adaptors
        fn on_map<S: Signal + $a>($self_, $s: signal::Map<S, fn(S::Frame) -> $X, $X>) -> Self::Out { $body }
        fn on_zip<S: Signal<Frame = $X> + $a>($self_, $s: signal::ZipMap<S, Dyn<$a, $X>, fn($X, $X) -> $X, $X>) -> Self::Out { $body }
        fn on_zipadd<S: Signal<Frame = $X> + $a>($self_, $s: signal::ZipMap<S, Dyn<$a, <$X as Sort>::Sg>, fn($X, <$X as Sort>::Sg) -> $X, $X>) -> Self::Out { $body }
        fn on_add<S: Signal<Frame = $X> + $a>($self_, $s: signal::AddAmp<S, Dyn<$a, <$X as Sort>::Sg>>) -> Self::Out { $body }
        fn on_mul<S: Signal<Frame = $X> + $a>($self_, $s: signal::MulAmp<S, Dyn<$a, <$X as Sort>::Fl>>) -> Self::Out { $body }
        fn on_scale<S: Signal<Frame = $X> + $a>($self_, $s: signal::ScaleAmp<S>) -> Self::Out { $body }
        fn on_scalepc<S: Signal<Frame = $X> + $a>($self_, $s: signal::ScaleAmpPerChannel<S, <$X as Sort>::Fl>) -> Self::Out { $body }
        fn on_offset<S: Signal<Frame = $X> + $a>($self_, $s: signal::OffsetAmp<S>) -> Self::Out { $body }
        fn on_offsetpc<S: Signal<Frame = $X> + $a>($self_, $s: signal::OffsetAmpPerChannel<S, <$X as Sort>::Sg>) -> Self::Out { $body }
        fn on_clip<S: Signal<Frame = $X> + $a>($self_, $s: signal::ClipAmp<S>) -> Self::Out { $body }
        fn on_delay<S: Signal<Frame = $X> + $a>($self_, $s: signal::Delay<S>) -> Self::Out { $body }
        fn on_inspect<S: Signal<Frame = $X> + $a>($self_, $s: signal::Inspect<S, $crate::st::InspFn<$X>>) -> Self::Out { $body }
        // the sources
        fn on_src($self_, $s: signal::FromIterator<CountIter<$X>>) -> Self::Out { $body }
        fn on_srcs($self_, $s: signal::FromInterleavedSamplesIterator<CountIter<<$X as Frame>::Sample>, $X>) -> Self::Out { $body }
        fn on_byref($self_, $s: &$a mut Dyn<'static, $X>) -> Self::Out { $body }
        fn on_eq($self_, $s: signal::Equilibrium<$X>) -> Self::Out { $body }
        fn on_gen($self_, $s: signal::Gen<$crate::st::GenFn<$X>, $X>) -> Self::Out { $body }
        fn on_genmut($self_, $s: signal::GenMut<$crate::st::GenMutFn<$X>, $X>) -> Self::Out { $body }
        // oscillators, noise, phase / step signals (they yield f64 mono: callable at $X = f64 only)
        fn on_consthz($self_, $s: signal::ConstHz) -> Self::Out where signal::ConstHz: Signal<Frame = $X> { $body }
        fn on_hz<H: Signal<Frame = f64> + $a>($self_, $s: signal::Hz<H>) -> Self::Out where signal::Hz<H>: Signal<Frame = $X> { $body }
        fn on_phase<P: signal::Step + $a>($self_, $s: signal::Phase<P>) -> Self::Out where signal::Phase<P>: Signal<Frame = $X> { $body }
        fn on_sine<P: signal::Step + $a>($self_, $s: signal::Sine<P>) -> Self::Out where signal::Sine<P>: Signal<Frame = $X> { $body }
        fn on_saw<P: signal::Step + $a>($self_, $s: signal::Saw<P>) -> Self::Out where signal::Saw<P>: Signal<Frame = $X> { $body }
        fn on_square<P: signal::Step + $a>($self_, $s: signal::Square<P>) -> Self::Out where signal::Square<P>: Signal<Frame = $X> { $body }
        fn on_simplex<P: signal::Step + $a>($self_, $s: signal::NoiseSimplex<P>) -> Self::Out where signal::NoiseSimplex<P>: Signal<Frame = $X> { $body }
        fn on_noise($self_, $s: signal::Noise) -> Self::Out where signal::Noise: Signal<Frame = $X> { $body }
    };
}

/// a continuation: what happens to a receiver once it is built (one entry per receiver constructor)
#[allow(unused_variables)]
pub(crate) trait Kont<'a, F: Sort>: Sized {
    type Out;
    on_all!(F, 'a, |self, s| unreachable!());
}

pub(crate) trait Lvl {
    fn build<'a, F: Sort, K: Kont<'a, F>>(t: &Value, path: &str, cx: &mut Cx<'a>, k: K) -> K::Out;
}
/// everything from here down is boxed (the dynamic builder)
pub(crate) struct L0;
/// one concrete node whose receiver operand is built at level `D`
pub(crate) struct Lv<D>(PhantomData<D>);

impl Lvl for L0 {
    fn build<'a, F: Sort, K: Kont<'a, F>>(t: &Value, path: &str, cx: &mut Cx<'a>, k: K) -> K::Out {
        k.on_any(build::<F>(t, path, cx))
    }
}
impl<D: Lvl> Lvl for Lv<D> {
    fn build<'a, F: Sort, K: Kont<'a, F>>(t: &Value, path: &str, cx: &mut Cx<'a>, k: K) -> K::Out {
        node::<F, D, K>(t, path, cx, k)
    }
}

// ------------------------------------------------------------------------------------------
// continuations: one per adaptor method, each applied to every receiver constructor

macro_rules! kont_method {
    ($W:ident, $P:ty, |$s:ident, $p:ident| $on:ident($e:expr)) => {
        struct $W<F: Sort, K> {
            p: $P,
            k: K,
            _f: PhantomData<F>,
        }
        impl<'a, F: Sort, K: Kont<'a, F>> Kont<'a, F> for $W<F, K> {
            type Out = K::Out;
            on_all!(F, 'a, |self, $s| {
                let $p = self.p;
                self.k.$on($e)
            });
        }
    };
}
kont_method!(WMap, fn(F) -> F, |s, f| on_map(s.map(f)));
kont_method!(WScale, <F::Fl as Frame>::Sample, |s, g| on_scale(s.scale_amp(g)));
kont_method!(WOffset, <F::Sg as Frame>::Sample, |s, o| on_offset(s.offset_amp(o)));
kont_method!(WScalePc, F::Fl, |s, gs| on_scalepc(s.scale_amp_per_channel(gs)));
kont_method!(WOffsetPc, F::Sg, |s, os| on_offsetpc(s.offset_amp_per_channel(os)));
kont_method!(WClip, <F::Sg as Frame>::Sample, |s, th| on_clip(s.clip_amp(th)));
kont_method!(WDelay, usize, |s, n| on_delay(s.delay(n)));
kont_method!(WInspect, InspFn<F>, |s, f| on_inspect(s.inspect(f)));

fn insp_closure<F: Sort>(log: InspLog, id: usize) -> InspFn<F> {
    Box::new(move |fr: &F| log.borrow_mut().push((id, F::raw_json as fn([u64; 4]) -> Value, fr.raw())))
}

/// `map` with a closure whose argument lives at the Signed / Float companion sort
struct WMapSg<F: Sort, K> {
    k: K,
    _f: PhantomData<F>,
}
impl<'a, F: Sort, K: Kont<'a, F>> Kont<'a, F::Sg> for WMapSg<F, K> {
    type Out = K::Out;
    on_all!(F::Sg, 'a, |self, s| self.k.on_map(s.map(F::from_signed as fn(F::Sg) -> F)));
}
struct WMapFl<F: Sort, K> {
    k: K,
    _f: PhantomData<F>,
}
impl<'a, F: Sort, K: Kont<'a, F>> Kont<'a, F::Fl> for WMapFl<F, K> {
    type Out = K::Out;
    on_all!(F::Fl, 'a, |self, s| self.k.on_map(s.map(F::from_float as fn(F::Fl) -> F)));
}

/// the combiners: the second operand is an argument (boxed)
struct WZip<'a, F: Sort, K> {
    b: Dyn<'a, F>,
    f: fn(F, F) -> F,
    k: K,
}
impl<'a, F: Sort, K: Kont<'a, F>> Kont<'a, F> for WZip<'a, F, K> {
    type Out = K::Out;
    on_all!(F, 'a, |self, s| self.k.on_zip(s.zip_map(self.b, self.f)));
}
struct WZipAdd<'a, F: Sort, K> {
    b: Dyn<'a, F::Sg>,
    k: K,
}
fn zip_addamp<F: Sort>(x: F, y: F::Sg) -> F {
    Frame::add_amp(x, y)
}
impl<'a, F: Sort, K: Kont<'a, F>> Kont<'a, F> for WZipAdd<'a, F, K> {
    type Out = K::Out;
    on_all!(F, 'a, |self, s| self.k.on_zipadd(s.zip_map(self.b, zip_addamp::<F> as fn(F, F::Sg) -> F)));
}
struct WAdd<'a, F: Sort, K> {
    b: Dyn<'a, F::Sg>,
    k: K,
}
impl<'a, F: Sort, K: Kont<'a, F>> Kont<'a, F> for WAdd<'a, F, K> {
    type Out = K::Out;
    on_all!(F, 'a, |self, s| self.k.on_add(s.add_amp(self.b)));
}
struct WMul<'a, F: Sort, K> {
    b: Dyn<'a, F::Fl>,
    k: K,
}
impl<'a, F: Sort, K: Kont<'a, F>> Kont<'a, F> for WMul<'a, F, K> {
    type Out = K::Out;
    on_all!(F, 'a, |self, s| self.k.on_mul(s.mul_amp(self.b)));
}

fn first<F>(x: F, _y: F) -> F {
    x
}
fn second<F>(_x: F, y: F) -> F {
    y
}
fn ident<F>(x: F) -> F {
    x
}

// ------------------------------------------------------------------------------------------
// nodes and leaves

pub(crate) fn delay_count(t: &Value) -> usize {
    if t["k"] == "delaymax" {
        usize::MAX - t["m"].as_u64().expect("delaymax m") as usize
    } else {
        t["n"].as_u64().expect("delay n") as usize
    }
}

fn node<'a, F: Sort, D: Lvl, K: Kont<'a, F>>(t: &Value, path: &str, cx: &mut Cx<'a>, k: K) -> K::Out {
    let kind = t["k"].as_str().expect("term kind");
    let pa = format!("{}a", path);
    let pb = format!("{}b", path);
    let a = &t["a"];
    let ph = PhantomData;
    match kind {
        "src" | "srcs" | "byref" | "eq" | "gen" | "genmut" | "opq" => leaf::<F, K>(t, cx, k),
        "map" => match t["f"].as_str().expect("map fn") {
            "id" => D::build::<F, _>(a, &pa, cx, WMap { p: ident::<F> as fn(F) -> F, k, _f: ph }),
            "rev" => D::build::<F, _>(a, &pa, cx, WMap { p: F::rev as fn(F) -> F, k, _f: ph }),
            "inv" => D::build::<F, _>(a, &pa, cx, WMap { p: F::inv as fn(F) -> F, k, _f: ph }),
            "from_signed" => D::build::<F::Sg, _>(a, &pa, cx, WMapSg::<F, K> { k, _f: ph }),
            "from_float" => D::build::<F::Fl, _>(a, &pa, cx, WMapFl::<F, K> { k, _f: ph }),
            f => panic!("unknown map closure {}", f),
        },
        "zipmap" => match t["f"].as_str().expect("zip_map fn") {
            "addamp" => {
                let b = build::<F::Sg>(&t["b"], &pb, cx);
                D::build::<F, _>(a, &pa, cx, WZipAdd { b, k })
            }
            fname => {
                let f = match fname {
                    "first" => first::<F> as fn(F, F) -> F,
                    "second" => second::<F> as fn(F, F) -> F,
                    "interleave" => F::interleave as fn(F, F) -> F,
                    f => panic!("unknown zip_map closure {}", f),
                };
                let b = build::<F>(&t["b"], &pb, cx);
                D::build::<F, _>(a, &pa, cx, WZip { b, f, k })
            }
        },
        "add" => {
            let b = build::<F::Sg>(&t["b"], &pb, cx);
            D::build::<F, _>(a, &pa, cx, WAdd { b, k })
        }
        "mul" => {
            let b = build::<F::Fl>(&t["b"], &pb, cx);
            D::build::<F, _>(a, &pa, cx, WMul { b, k })
        }
        "scale" => D::build::<F, _>(a, &pa, cx, WScale { p: <F::Fl as Sort>::s_from_json(&t["g"]), k, _f: ph }),
        "offset" => D::build::<F, _>(a, &pa, cx, WOffset { p: <F::Sg as Sort>::s_from_json(&t["o"]), k, _f: ph }),
        "scalepc" => D::build::<F, _>(a, &pa, cx, WScalePc { p: <F::Fl as Sort>::f_from_json(&t["gs"]), k, _f: ph }),
        "offsetpc" => D::build::<F, _>(a, &pa, cx, WOffsetPc { p: <F::Sg as Sort>::f_from_json(&t["os"]), k, _f: ph }),
        "clip" => D::build::<F, _>(a, &pa, cx, WClip { p: <F::Sg as Sort>::s_from_json(&t["th"]), k, _f: ph }),
        "inspect" => {
            let id = {
                let mut p = cx.paths.borrow_mut();
                p.push(path.to_string());
                p.len() - 1
            };
            let f = insp_closure::<F>(cx.insp.clone(), id);
            D::build::<F, _>(a, &pa, cx, WInspect { p: f, k, _f: ph })
        }
        "delay" | "delaymax" => D::build::<F, _>(a, &pa, cx, WDelay { p: delay_count(t), k, _f: ph }),
        k => panic!("unknown term kind {}", k),
    }
}

/// a leaf inside the static region: the bare source type
fn leaf<'a, F: Sort, K: Kont<'a, F>>(t: &Value, cx: &mut Cx<'a>, k: K) -> K::Out {
    match t["k"].as_str().expect("term kind") {
        kind @ ("src" | "srcs") => {
            let j = src_index(t);
            let spec = &cx.srcs[j];
            assert_eq!(spec["kind"] == "samples", kind == "srcs", "leaf kind vs source kind");
            if cx.lifted.as_ref().map_or(false, |l| l.0 == j) {
                // the FromIterator that `lift` handed to its closure, as it came
                let b = cx.lifted.take().unwrap().1;
                return match b.downcast::<signal::FromIterator<CountIter<F>>>() {
                    Ok(raw) => k.on_src(*raw),
                    Err(b) => k.on_any(*b.downcast::<Dyn<'static, F>>().ok().expect("lifted source sort")),
                };
            }
            assert_eq!(spec["fmt"].as_str().unwrap(), F::FMT, "source used at a different sample format");
            let xs = spec["xs"].as_array().expect("xs");
            let calls = cx.iters[j].clone();
            if kind == "srcs" {
                let data: Vec<F::Sample> = xs.iter().map(F::s_from_json).collect();
                k.on_srcs(signal::from_interleaved_samples_iter::<_, F>(CountIter { data, pos: 0, calls, ended: false }))
            } else {
                let data: Vec<F> = xs.iter().map(F::f_from_json).collect();
                k.on_src(signal::from_iter(CountIter { data, pos: 0, calls, ended: false }))
            }
        }
        "opq" => F::opaque(&cx.srcs[src_index(t)], k),
        "byref" => {
            let j = src_index(t);
            let slot: &'a mut Box<dyn Any> = cx.byref[j].take().expect("by_ref source used twice");
            let d: &'a mut Dyn<'static, F> = slot.downcast_mut::<Dyn<'static, F>>().expect("by_ref source sort");
            k.on_byref(Signal::by_ref(d))
        }
        "eq" => k.on_eq(signal::equilibrium::<F>()),
        "gen" => {
            let c = F::f_from_json(&t["c"]);
            k.on_gen(signal::gen(Box::new(move || c) as GenFn<F>))
        }
        "genmut" => {
            let cs: Vec<F> = t["cs"].as_array().expect("cs").iter().map(F::f_from_json).collect();
            let mut i = 0usize;
            k.on_genmut(signal::gen_mut(Box::new(move || {
                let r = cs[i % cs.len()];
                i += 1;
                r
            }) as GenMutFn<F>))
        }
        k => panic!("not a leaf: {}", k),
    }
}

// ------------------------------------------------------------------------------------------
// opaque sources (f64 mono): oscillators, noise, the phase / step signals.  Their frames are not
// computed by the spec; a TWIN built from the same description is pulled at reset and its frames
// are logged (`o.twin`) -- the spec takes them as the content of the source.

pub(crate) fn opaque_f64<'a, K: Kont<'a, f64>>(spec: &Value, k: K) -> K::Out {
    let p = &spec["p"];
    let sr = unf64(&p["rate"]);
    let hz = unf64(&p["hz"]);
    match spec["what"].as_str().expect("opaque source: what") {
        "const_hz" => k.on_consthz(signal::rate(sr).const_hz(hz)),
        "hz" => k.on_hz(signal::rate(sr).hz(signal::gen(Box::new(move || hz) as GenFn<f64>))),
        "phase" => k.on_phase(signal::rate(sr).const_hz(hz).phase()),
        "sine" => k.on_sine(signal::rate(sr).const_hz(hz).sine()),
        "saw" => k.on_saw(signal::rate(sr).const_hz(hz).saw()),
        "square" => k.on_square(signal::rate(sr).const_hz(hz).square()),
        "noise_simplex" => k.on_simplex(signal::rate(sr).const_hz(hz).noise_simplex()),
        "noise" => k.on_noise(signal::noise(p["seed"].as_u64().expect("noise seed"))),
        w => panic!("unknown opaque source {}", w),
    }
}
/// pulls the first n frames of the twin
pub(crate) struct KTwin(pub usize);
fn twin_pull<F: Sort, S: Signal<Frame = F>>(mut s: S, n: usize) -> Vec<Value> {
    (0..n).map(|_| s.next().f_to_json()).collect()
}
impl<'a, F: Sort> Kont<'a, F> for KTwin {
    type Out = Vec<Value>;
    on_all!(F, 'a, |self, s| twin_pull::<F, _>(s, self.0));
}

// ------------------------------------------------------------------------------------------
// the root of a static stack

pub(crate) trait StRoot<'a, F: Sort> {
    fn next(&mut self) -> F;
    fn is_exhausted(&self) -> bool;
    /// an iterator consumer called on the root by value ...
    fn consume(self: Box<Self>, consumer: &str, n: usize, cap: usize) -> Collected;
    /// ... or on `root.by_ref()`
    fn consume_mut(&mut self, consumer: &str, n: usize, cap: usize) -> Collected;
}
/// One-level stacks (a bare source, or one adaptor over a boxed operand): `next`, `is_exhausted`,
/// `take`, `until_exhausted`, `into_interleaved_samples` and `by_ref` are called on the root with
/// its constructor spelled out as well (the function pointers are made by `full_root!` inside the
/// `on_*` method of that constructor).
struct StFull<F, T> {
    s: T,
    next: fn(&mut T) -> F,
    exh: fn(&T) -> bool,
    consume: fn(T, &str, usize, usize) -> Collected,
    consume_mut: fn(&mut T, &str, usize, usize) -> Collected,
}
macro_rules! consumers {
    ($F:ty, $t:expr, $c:expr, $n:expr, $cap:expr) => {
        match $c {
            "take" => {
                let mut it = $t.take($n);
                let (lo, hi) = it.size_hint();
                let hint = [lo as u64, hi.map_or(u64::MAX >> 34, |x| x as u64), ExactSizeIterator::len(&it) as u64];
                drain_items(&mut it, $cap, hint, <$F as Sort>::f_to_json)
            }
            "ue" => drain_items(&mut $t.until_exhausted(), $cap, [0, 0, 0], <$F as Sort>::f_to_json),
            "il" => drain_items(&mut $t.into_interleaved_samples().into_iter(), $cap, [0, 0, 0], <$F as Sort>::s_to_json),
            c => panic!("unknown consumer {}", c),
        }
    };
}
macro_rules! full_root {
    ($F:ty, $s:ident) => {
        mk_full::<$F, _>(
            $s,
            |t| t.next(),
            |t| t.is_exhausted(),
            |t, c, n, cap| consumers!($F, t, c, n, cap),
            |t, c, n, cap| consumers!($F, t.by_ref(), c, n, cap),
        )
    };
}
fn mk_full<'a, F: Sort, T: Signal<Frame = F> + 'a>(
    s: T,
    next: fn(&mut T) -> F,
    exh: fn(&T) -> bool,
    consume: fn(T, &str, usize, usize) -> Collected,
    consume_mut: fn(&mut T, &str, usize, usize) -> Collected,
) -> Box<dyn StRoot<'a, F> + 'a> {
    Box::new(StFull { s, next, exh, consume, consume_mut })
}
impl<'a, F: Sort, T: Signal<Frame = F> + 'a> StRoot<'a, F> for StFull<F, T> {
    fn next(&mut self) -> F {
        (self.next)(&mut self.s)
    }
    fn is_exhausted(&self) -> bool {
        (self.exh)(&self.s)
    }
    fn consume(self: Box<Self>, consumer: &str, n: usize, cap: usize) -> Collected {
        (self.consume)(self.s, consumer, n, cap)
    }
    fn consume_mut(&mut self, consumer: &str, n: usize, cap: usize) -> Collected {
        (self.consume_mut)(&mut self.s, consumer, n, cap)
    }
}
pub(crate) struct KRoot;
impl<'a, F: Sort> Kont<'a, F> for KRoot {
    type Out = Box<dyn StRoot<'a, F> + 'a>;
    on_all!(F, 'a, |self, s| full_root!(F, s));
}

/// Two-level stacks (every ordered pair of adaptor methods, every method on every source type):
/// only `next` / `is_exhausted` are instantiated per stack; the consumers take the stack behind one
/// box (`StSig`), which keeps the number of generic instantiations -- the build time -- down.
struct StLite<S>(S);
impl<'a, F: Sort, S: Signal<Frame = F> + 'a> StRoot<'a, F> for StLite<S> {
    fn next(&mut self) -> F {
        self.0.next()
    }
    fn is_exhausted(&self) -> bool {
        self.0.is_exhausted()
    }
    fn consume(self: Box<Self>, consumer: &str, n: usize, cap: usize) -> Collected {
        consume::<F, StSig<'a, F>>(StSig(self), consumer, n, cap)
    }
    fn consume_mut(&mut self, consumer: &str, n: usize, cap: usize) -> Collected {
        consume::<F, StRef<'_, 'a, F>>(StRef(self), consumer, n, cap)
    }
}
fn lite_root<'a, F: Sort, S: Signal<Frame = F> + 'a>(s: S) -> Box<dyn StRoot<'a, F> + 'a> {
    Box::new(StLite(s))
}
pub(crate) struct KLite;
impl<'a, F: Sort> Kont<'a, F> for KLite {
    type Out = Box<dyn StRoot<'a, F> + 'a>;
    on_all!(F, 'a, |self, s| lite_root::<F, _>(s));
}
/// a whole static stack behind one box, as a `Signal`
pub(crate) struct StSig<'a, F: Sort>(pub Box<dyn StRoot<'a, F> + 'a>);
impl<'a, F: Sort> Signal for StSig<'a, F> {
    type Frame = F;
    #[inline]
    fn next(&mut self) -> F {
        self.0.next()
    }
    #[inline]
    fn is_exhausted(&self) -> bool {
        self.0.is_exhausted()
    }
}
struct StRef<'r, 'a, F: Sort>(&'r mut (dyn StRoot<'a, F> + 'a));
impl<'r, 'a, F: Sort> Signal for StRef<'r, 'a, F> {
    type Frame = F;
    #[inline]
    fn next(&mut self) -> F {
        self.0.next()
    }
    #[inline]
    fn is_exhausted(&self) -> bool {
        self.0.is_exhausted()
    }
}

/// depth of the `src` leaf j below the root along receiver operands only (None: not on the chain)
pub(crate) fn chain_depth(t: &Value, j: usize) -> Option<u64> {
    match t["k"].as_str().unwrap() {
        "src" | "srcs" => (src_index(t) == j).then_some(0),
        "byref" | "eq" | "gen" | "genmut" | "opq" => None,
        _ => chain_depth(&t["a"], j).map(|d| d + 1),
    }
}

/// the receiver chain of `t`, `st` levels deep, without boxing
pub(crate) fn build_static<'a, F: Sort>(st: u64, t: &Value, cx: &mut Cx<'a>) -> Box<dyn StRoot<'a, F> + 'a> {
    match st {
        1 => <Lv<L0>>::build::<F, KRoot>(t, "r", cx, KRoot),
        2 => <Lv<Lv<L0>>>::build::<F, KLite>(t, "r", cx, KLite),
        _ => panic!("static depth {} is not built", st),
    }
}
