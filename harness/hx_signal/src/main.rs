//! Driver + logger for dasp_signal's sources, pointwise adaptors and iterator consumers
//! (properties C04 / C05, spec/Signals.tla).
//!
//! A stimulus names an adaptor TERM (data) over instrumented sources.  `build` turns the term into
//! the REAL adaptor structs of dasp_signal (`AddAmp<Dyn, Dyn>`, `Delay<Dyn>`, ...), boxing every
//! node behind `Dyn` so that one generic builder serves every term shape and every frame sort.
//! Every public call (`next`, `is_exhausted`, the iterator consumers, direct use of a borrowed
//! source after the adaptor is gone) is logged at its return; Trace_Signals.tla judges the log.
//! No expected values are computed here.
use dasp_frame::Frame;
use dasp_sample::{Sample, ToSample};
use dasp_signal::{self as signal, Signal};
use hx_common::*;
use serde_json::{json, Value};
use std::any::Any;
use std::cell::{Cell, RefCell};
use std::rc::Rc;

#[global_allocator]
static A: CountingAlloc = CountingAlloc;

#[macro_use]
mod st;

// ------------------------------------------------------------------------------------------
// the dynamic term builder's node type

/// Every node of a term is boxed behind `Dyn`.  `Dyn` is `Clone` so that the REAL `Clone` impls of
/// the adaptor structs (`#[derive(Clone)]` on `AddAmp<Dyn, Dyn>`, `Delay<Dyn>`, `Take<Dyn>`, the
/// hand-written one of `IntoInterleavedSamples<Dyn>`, ...) can be exercised: cloning a `Dyn` clones
/// the concrete struct inside it.  The only nodes that cannot be cloned are `by_ref` leaves (`&mut S`
/// is not `Clone`); cloning a term that contains one panics (the generators never ask for it).
pub struct Dyn<'a, F: Frame>(Box<dyn DynSig<'a, F> + 'a>);
trait DynSig<'a, F: Frame>: Signal<Frame = F> {
    fn dup(&self) -> Dyn<'a, F>;
}
struct Cl<S>(S);
struct NoCl<S>(S);
macro_rules! delegate_signal {
    ($W:ident) => {
        impl<S: Signal> Signal for $W<S> {
            type Frame = S::Frame;
            #[inline]
            fn next(&mut self) -> S::Frame {
                self.0.next()
            }
            #[inline]
            fn is_exhausted(&self) -> bool {
                self.0.is_exhausted()
            }
        }
    };
}
delegate_signal!(Cl);
delegate_signal!(NoCl);
impl<'a, F: Frame, S: Signal<Frame = F> + Clone + 'a> DynSig<'a, F> for Cl<S> {
    fn dup(&self) -> Dyn<'a, F> {
        Dyn(Box::new(Cl(self.0.clone())))
    }
}
impl<'a, F: Frame, S: Signal<Frame = F> + 'a> DynSig<'a, F> for NoCl<S> {
    fn dup(&self) -> Dyn<'a, F> {
        panic!("a term with a borrowed (by_ref) leaf cannot be cloned")
    }
}
impl<'a, F: Frame> Dyn<'a, F> {
    fn new<S: Signal<Frame = F> + Clone + 'a>(s: S) -> Self {
        Dyn(Box::new(Cl(s)))
    }
    fn new_noclone<S: Signal<Frame = F> + 'a>(s: S) -> Self {
        Dyn(Box::new(NoCl(s)))
    }
}
impl<'a, F: Frame> Clone for Dyn<'a, F> {
    fn clone(&self) -> Self {
        self.0.dup()
    }
}
impl<'a, F: Frame> Signal for Dyn<'a, F> {
    type Frame = F;
    #[inline]
    fn next(&mut self) -> F {
        self.0.next()
    }
    #[inline]
    fn is_exhausted(&self) -> bool {
        self.0.is_exhausted()
    }
}

// ------------------------------------------------------------------------------------------
// instrumentation: an iterator that counts calls, a signal wrapper that counts next() calls

/// The source iterator is deliberately NOT fused: once its data has run out it returns `None` exactly
/// once, and if it is polled again after that it yields "ghost" items (its last item, repeated).  A
/// signal that really ends when its iterator first ends never sees them.
/// A clone shares the call counter (`Rc`): the pulls of a cloned term are counted as well.
#[derive(Clone)]
struct CountIter<T> {
    data: Vec<T>,
    pos: usize,
    calls: Rc<Cell<u32>>,
    ended: bool,
}
impl<T: Copy> Iterator for CountIter<T> {
    type Item = T;
    fn next(&mut self) -> Option<T> {
        self.calls.set(self.calls.get() + 1);
        let r = self.data.get(self.pos).copied();
        if r.is_some() {
            self.pos += 1;
            return r;
        }
        if !self.ended {
            self.ended = true;
            return None;
        }
        self.data.last().copied()
    }
}
#[derive(Clone)]
struct Counted<S> {
    inner: S,
    calls: Rc<Cell<u32>>,
}
impl<S: Signal> Signal for Counted<S> {
    type Frame = S::Frame;
    fn next(&mut self) -> S::Frame {
        // (fuse: a consumer that never ends must not hang the run -- the panic is caught and logged)
        assert!(self.calls.get() < 1_000_000, "fuse: source pulled a million times");
        self.calls.set(self.calls.get() + 1);
        self.inner.next()
    }
    fn is_exhausted(&self) -> bool {
        self.inner.is_exhausted()
    }
}

// ------------------------------------------------------------------------------------------
// sample formats and frame sorts

trait Smp: Sample + 'static {
    const FMT: &'static str;
    fn from_json(v: &Value) -> Self;
    fn to_json(self) -> Value;
    fn to_raw(self) -> u64;
    fn raw_json(r: u64) -> Value;
    fn inv(self) -> Self;
}
macro_rules! smp_int {
    ($T:ty, $name:literal) => {
        impl Smp for $T {
            const FMT: &'static str = $name;
            fn from_json(v: &Value) -> Self {
                v.as_i64().expect("integer sample") as $T
            }
            fn to_json(self) -> Value {
                json!(self as i64)
            }
            fn to_raw(self) -> u64 {
                self as i64 as u64
            }
            fn raw_json(r: u64) -> Value {
                json!(r as i64)
            }
            fn inv(self) -> Self {
                !self
            }
        }
    };
}
smp_int!(i8, "i8");
smp_int!(u8, "u8");
smp_int!(i16, "i16");
/// 32 / 64-bit integer samples do not fit TLC's integers: {"n":0|1,"l":[15-bit limbs]} (hx_common::big)
macro_rules! smp_wide {
    ($T:ty, $name:literal) => {
        impl Smp for $T {
            const FMT: &'static str = $name;
            fn from_json(v: &Value) -> Self {
                unbig(v) as $T
            }
            fn to_json(self) -> Value {
                big(self as i128)
            }
            fn to_raw(self) -> u64 {
                self as i64 as u64
            }
            fn raw_json(r: u64) -> Value {
                big((r as $T) as i128)
            }
            fn inv(self) -> Self {
                !self
            }
        }
    };
}
smp_wide!(i32, "i32");
smp_wide!(u32, "u32");
smp_wide!(i64, "i64");
impl Smp for f32 {
    const FMT: &'static str = "f32";
    fn from_json(v: &Value) -> Self {
        unf32(v)
    }
    fn to_json(self) -> Value {
        f32f(self)
    }
    fn to_raw(self) -> u64 {
        self.to_bits() as u64
    }
    fn raw_json(r: u64) -> Value {
        f32f(f32::from_bits(r as u32))
    }
    fn inv(self) -> Self {
        -self
    }
}
impl Smp for f64 {
    const FMT: &'static str = "f64";
    fn from_json(v: &Value) -> Self {
        unf64(v)
    }
    fn to_json(self) -> Value {
        f64f(self)
    }
    fn to_raw(self) -> u64 {
        self.to_bits()
    }
    fn raw_json(r: u64) -> Value {
        f64f(f64::from_bits(r))
    }
    fn inv(self) -> Self {
        -self
    }
}

/// A frame type the builder can instantiate; `Sg` / `Fl` are the sorts of the operands of
/// `add_amp` / `mul_amp` (the frame types over `Sample::Signed` / `Sample::Float`).
trait Sort: Frame + 'static {
    type Sg: Sort + Frame<Sample = <Self::Sample as Sample>::Signed, NumChannels = Self::NumChannels>;
    type Fl: Sort + Frame<Sample = <Self::Sample as Sample>::Float, NumChannels = Self::NumChannels>;
    const FMT: &'static str;
    fn s_from_json(v: &Value) -> Self::Sample;
    fn s_to_json(s: Self::Sample) -> Value;
    fn f_from_json(v: &Value) -> Self;
    fn f_to_json(self) -> Value;
    fn raw(&self) -> [u64; 4];
    fn raw_json(r: [u64; 4]) -> Value;
    // the closure menu of map / zip_map (spec: MapFn / ZipFn)
    fn inv(self) -> Self;
    fn rev(self) -> Self;
    fn interleave(a: Self, b: Self) -> Self;
    fn from_signed(x: Self::Sg) -> Self;
    fn from_float(x: Self::Fl) -> Self;
    // statically typed stacks (st.rs) are compiled for a few sorts only
    /// deepest static region built for this sort (0: none)
    const ST_MAX: u64 = 0;
    fn st_root<'a>(st: u64, _t: &Value, _cx: &mut Cx<'a>) -> Box<dyn st::StRoot<'a, Self> + 'a> {
        panic!("static depth {} is not built for sort {}", st, Self::FMT)
    }
    /// an opaque source (oscillator, noise, ...) handed to `k` as its concrete type: f64 mono only
    fn opaque<'a, K: st::Kont<'a, Self>>(_spec: &Value, _k: K) -> K::Out {
        panic!("opaque sources yield f64 mono frames, not {}", Self::FMT)
    }
}
fn g_from_json<F: Frame>(v: &Value) -> F
where
    F::Sample: Smp,
{
    let a = v.as_array().expect("frame = array of samples");
    assert_eq!(a.len(), F::CHANNELS, "frame width");
    F::from_fn(|i| <F::Sample as Smp>::from_json(&a[i]))
}
fn g_to_json<F: Frame>(f: F) -> Value
where
    F::Sample: Smp,
{
    Value::Array(f.channels().map(|s| s.to_json()).collect())
}
fn g_raw<F: Frame>(f: &F) -> [u64; 4]
where
    F::Sample: Smp,
{
    let mut r = [0u64; 4];
    for i in 0..F::CHANNELS {
        r[i] = f.channel(i).unwrap().to_raw();
    }
    r
}
fn g_raw_json<F: Frame>(r: [u64; 4]) -> Value
where
    F::Sample: Smp,
{
    Value::Array((0..F::CHANNELS).map(|i| <F::Sample as Smp>::raw_json(r[i])).collect())
}
fn g_conv<X: Frame, Y: Frame<NumChannels = X::NumChannels>>(x: X) -> Y
where
    X::Sample: ToSample<Y::Sample>,
{
    Frame::map(x, |s| s.to_sample::<Y::Sample>())
}
macro_rules! sort_impl {
    (@st dynamic) => {};
    (@st st2) => {
        const ST_MAX: u64 = 2;
        fn st_root<'a>(st: u64, t: &Value, cx: &mut Cx<'a>) -> Box<dyn st::StRoot<'a, Self> + 'a> { st::build_static::<Self>(st, t, cx) }
    };
    (@st st2osc) => {
        sort_impl!(@st st2);
        fn opaque<'a, K: st::Kont<'a, Self>>(spec: &Value, k: K) -> K::Out { st::opaque_f64(spec, k) }
    };
    ($mode:ident: $($T:ty),*) => { $(
        impl Sort for $T {
            sort_impl!(@st $mode);
            type Sg = <$T as Frame>::Signed;
            type Fl = <$T as Frame>::Float;
            const FMT: &'static str = <<$T as Frame>::Sample as Smp>::FMT;
            fn s_from_json(v: &Value) -> Self::Sample { Smp::from_json(v) }
            fn s_to_json(s: Self::Sample) -> Value { s.to_json() }
            fn f_from_json(v: &Value) -> Self { g_from_json::<$T>(v) }
            fn f_to_json(self) -> Value { g_to_json(self) }
            fn raw(&self) -> [u64; 4] { g_raw(self) }
            fn raw_json(r: [u64; 4]) -> Value { g_raw_json::<$T>(r) }
            fn inv(self) -> Self { <$T as Frame>::from_fn(|i| Smp::inv(*self.channel(i).unwrap())) }
            fn rev(self) -> Self { <$T as Frame>::from_fn(|i| *self.channel(<$T as Frame>::CHANNELS - 1 - i).unwrap()) }
            fn interleave(a: Self, b: Self) -> Self {
                <$T as Frame>::from_fn(|i| if i % 2 == 0 { *a.channel(i).unwrap() } else { *b.channel(i).unwrap() })
            }
            fn from_signed(x: Self::Sg) -> Self { g_conv::<Self::Sg, $T>(x) }
            fn from_float(x: Self::Fl) -> Self { g_conv::<Self::Fl, $T>(x) }
        }
    )* };
}
// mono = the bare sample type (impl_frame_for_sample), wider = arrays
sort_impl!(dynamic: i8, [i8; 2], [i8; 3], [i8; 4], u8, [u8; 2], [u8; 3], [u8; 4], i16, [i16; 3], [i16; 4],
           f32, [f32; 2], [f32; 3], [f32; 4], [f64; 2], [f64; 3], [f64; 4],
           i32, [i32; 2], [i32; 3], [i32; 4], u32, [u32; 2], [u32; 3], [u32; 4], i64, [i64; 2], [i64; 3], [i64; 4]);
// the sorts with statically typed stacks (spec: MC_Signals!StMax, gen: `st_max`)
sort_impl!(st2: [i16; 2]);
sort_impl!(st2osc: f64);

macro_rules! with_sort {
    ($fmt:expr, $ch:expr, $F:ident => $body:expr) => {
        match ($fmt, $ch) {
            ("i8", 1) => { type $F = i8; $body }
            ("i8", 2) => { type $F = [i8; 2]; $body }
            ("i8", 3) => { type $F = [i8; 3]; $body }
            ("i8", 4) => { type $F = [i8; 4]; $body }
            ("u8", 1) => { type $F = u8; $body }
            ("u8", 2) => { type $F = [u8; 2]; $body }
            ("u8", 3) => { type $F = [u8; 3]; $body }
            ("u8", 4) => { type $F = [u8; 4]; $body }
            ("i16", 1) => { type $F = i16; $body }
            ("i16", 2) => { type $F = [i16; 2]; $body }
            ("i16", 3) => { type $F = [i16; 3]; $body }
            ("i16", 4) => { type $F = [i16; 4]; $body }
            ("f32", 1) => { type $F = f32; $body }
            ("f32", 2) => { type $F = [f32; 2]; $body }
            ("f32", 3) => { type $F = [f32; 3]; $body }
            ("f32", 4) => { type $F = [f32; 4]; $body }
            ("f64", 1) => { type $F = f64; $body }
            ("f64", 2) => { type $F = [f64; 2]; $body }
            ("f64", 3) => { type $F = [f64; 3]; $body }
            ("f64", 4) => { type $F = [f64; 4]; $body }
            ("i32", 1) => { type $F = i32; $body }
            ("i32", 2) => { type $F = [i32; 2]; $body }
            ("i32", 3) => { type $F = [i32; 3]; $body }
            ("i32", 4) => { type $F = [i32; 4]; $body }
            ("u32", 1) => { type $F = u32; $body }
            ("u32", 2) => { type $F = [u32; 2]; $body }
            ("u32", 3) => { type $F = [u32; 3]; $body }
            ("u32", 4) => { type $F = [u32; 4]; $body }
            ("i64", 1) => { type $F = i64; $body }
            ("i64", 2) => { type $F = [i64; 2]; $body }
            ("i64", 3) => { type $F = [i64; 3]; $body }
            ("i64", 4) => { type $F = [i64; 4]; $body }
            (f, c) => panic!("unsupported sort {} x {}", f, c),
        }
    };
}

// ------------------------------------------------------------------------------------------
// building a term

type InspLog = Rc<RefCell<Vec<(usize, fn([u64; 4]) -> Value, [u64; 4])>>>;

struct Cx<'a> {
    srcs: &'a [Value],
    pulls: Vec<Rc<Cell<u32>>>,                  // next() calls seen by each source signal
    iters: Vec<Rc<Cell<u32>>>,                  // calls of each underlying iterator (informational)
    byref: Vec<Option<&'a mut Box<dyn Any>>>,   // sources that outlive the term (`by_ref` leaves)
    lifted: Option<(usize, Box<dyn Any>)>,      // the FromIterator that `lift` hands to its closure
    insp: InspLog,
    paths: Rc<RefCell<Vec<String>>>,            // inspect node id -> path from the root
}

fn src_index(t: &Value) -> usize {
    (t["j"].as_u64().expect("source index") as usize).checked_sub(1).expect("1-based source index")
}

fn mk_source<'a, F: Sort>(spec: &Value, pulls: Rc<Cell<u32>>, iters: Rc<Cell<u32>>) -> Dyn<'a, F> {
    assert_eq!(spec["fmt"].as_str().unwrap(), F::FMT, "source used at a different sample format");
    let xs = spec["xs"].as_array().expect("xs");
    if spec["kind"] == "samples" {
        let data: Vec<F::Sample> = xs.iter().map(F::s_from_json).collect();
        let it = CountIter { data, pos: 0, calls: iters, ended: false };
        Dyn::new(Counted { inner: signal::from_interleaved_samples_iter::<_, F>(it), calls: pulls })
    } else {
        let data: Vec<F> = xs.iter().map(F::f_from_json).collect();
        let it = CountIter { data, pos: 0, calls: iters, ended: false };
        Dyn::new(Counted { inner: signal::from_iter(it), calls: pulls })
    }
}

fn build<'a, F: Sort>(t: &Value, path: &str, cx: &mut Cx<'a>) -> Dyn<'a, F> {
    let k = t["k"].as_str().expect("term kind");
    let pa = format!("{}a", path);
    let pb = format!("{}b", path);
    match k {
        "src" | "srcs" => {
            let j = src_index(t);
            assert_eq!(cx.srcs[j]["kind"] == "samples", k == "srcs", "leaf kind vs source kind");
            if cx.lifted.as_ref().map_or(false, |l| l.0 == j) {
                let b = cx.lifted.take().unwrap().1;
                Dyn::new(*b.downcast::<Dyn<'static, F>>().ok().expect("lifted source sort"))
            } else {
                mk_source::<F>(&cx.srcs[j], cx.pulls[j].clone(), cx.iters[j].clone())
            }
        }
        "byref" => {
            let j = src_index(t);
            let slot: &'a mut Box<dyn Any> = cx.byref[j].take().expect("by_ref source used twice");
            let d: &'a mut Dyn<'static, F> = slot.downcast_mut::<Dyn<'static, F>>().expect("by_ref source sort");
            Dyn::new_noclone(Signal::by_ref(d))
        }
        "eq" => Dyn::new(signal::equilibrium::<F>()),
        "gen" => {
            let c = F::f_from_json(&t["c"]);
            Dyn::new(signal::gen(move || c))
        }
        "genmut" => {
            let cs: Vec<F> = t["cs"].as_array().expect("cs").iter().map(F::f_from_json).collect();
            let mut i = 0usize;
            Dyn::new(signal::gen_mut(move || {
                let r = cs[i % cs.len()];
                i += 1;
                r
            }))
        }
        "map" => match t["f"].as_str().expect("map fn") {
            "id" => Dyn::new(build::<F>(&t["a"], &pa, cx).map(|x: F| x)),
            "rev" => Dyn::new(build::<F>(&t["a"], &pa, cx).map(F::rev)),
            "inv" => Dyn::new(build::<F>(&t["a"], &pa, cx).map(F::inv)),
            "from_signed" => Dyn::new(build::<F::Sg>(&t["a"], &pa, cx).map(F::from_signed)),
            "from_float" => Dyn::new(build::<F::Fl>(&t["a"], &pa, cx).map(F::from_float)),
            f => panic!("unknown map closure {}", f),
        },
        "zipmap" => {
            let a = build::<F>(&t["a"], &pa, cx);
            match t["f"].as_str().expect("zip_map fn") {
                "first" => Dyn::new(a.zip_map(build::<F>(&t["b"], &pb, cx), |x: F, _y: F| x)),
                "second" => Dyn::new(a.zip_map(build::<F>(&t["b"], &pb, cx), |_x: F, y: F| y)),
                "interleave" => Dyn::new(a.zip_map(build::<F>(&t["b"], &pb, cx), F::interleave)),
                "addamp" => Dyn::new(a.zip_map(build::<F::Sg>(&t["b"], &pb, cx), |x: F, y: F::Sg| Frame::add_amp(x, y))),
                f => panic!("unknown zip_map closure {}", f),
            }
        }
        "add" => {
            let a = build::<F>(&t["a"], &pa, cx);
            let b = build::<F::Sg>(&t["b"], &pb, cx);
            Dyn::new(a.add_amp(b))
        }
        "mul" => {
            let a = build::<F>(&t["a"], &pa, cx);
            let b = build::<F::Fl>(&t["b"], &pb, cx);
            Dyn::new(a.mul_amp(b))
        }
        "scale" => Dyn::new(build::<F>(&t["a"], &pa, cx).scale_amp(<F::Fl as Sort>::s_from_json(&t["g"]))),
        "offset" => Dyn::new(build::<F>(&t["a"], &pa, cx).offset_amp(<F::Sg as Sort>::s_from_json(&t["o"]))),
        "scalepc" => Dyn::new(build::<F>(&t["a"], &pa, cx).scale_amp_per_channel(<F::Fl as Sort>::f_from_json(&t["gs"]))),
        "offsetpc" => Dyn::new(build::<F>(&t["a"], &pa, cx).offset_amp_per_channel(<F::Sg as Sort>::f_from_json(&t["os"]))),
        "clip" => Dyn::new(build::<F>(&t["a"], &pa, cx).clip_amp(<F::Sg as Sort>::s_from_json(&t["th"]))),
        "inspect" => {
            let id = {
                let mut p = cx.paths.borrow_mut();
                p.push(path.to_string());
                p.len() - 1
            };
            let log = cx.insp.clone();
            let a = build::<F>(&t["a"], &pa, cx);
            Dyn::new(a.inspect(move |fr: &F| log.borrow_mut().push((id, F::raw_json as fn([u64; 4]) -> Value, fr.raw()))))
        }
        // `delaymax`: usize::MAX - m leading frames (more than any execution observes)
        "delay" | "delaymax" => Dyn::new(build::<F>(&t["a"], &pa, cx).delay(st::delay_count(t))),
        // an opaque source (oscillator, noise, ...): boxed here, its concrete type inside a static region
        "opq" => F::opaque(&cx.srcs[src_index(t)], KDyn),
        k => panic!("unknown term kind {}", k),
    }
}

fn collect_byrefs(t: &Value, out: &mut Vec<usize>) {
    if t["k"] == "byref" {
        out.push(src_index(t));
    }
    for key in ["a", "b"] {
        if t[key].is_object() {
            collect_byrefs(&t[key], out);
        }
    }
}

// ------------------------------------------------------------------------------------------
// executing one stimulus

fn counts(v: &[Rc<Cell<u32>>]) -> Value {
    Value::Array(v.iter().map(|c| json!(c.get())).collect())
}

/// Pull the iterator until None (at most `cap` items), then twice more.
fn drain<T>(it: &mut dyn Iterator<Item = T>, cap: usize, items: &mut Vec<T>) -> (bool, [bool; 2]) {
    let mut capped = true;
    for _ in 0..cap {
        match it.next() {
            Some(x) => items.push(x),
            None => {
                capped = false;
                break;
            }
        }
    }
    let a1 = it.next().is_some();
    let a2 = it.next().is_some();
    (capped, [a1, a2])
}

struct Collected {
    r: Value,
    after: [bool; 2],
    capped: bool,
    hint: [u64; 3],
    ok: bool,
    h: [i64; 3],
    clone: Option<Value>, // the extra observations of a `*_clone` consumer (merged into `o`)
}
fn collected<T>(res: Option<(bool, [bool; 2])>, items: Vec<T>, hint: [u64; 3], h: [i64; 3], enc: impl Fn(T) -> Value) -> Collected {
    match res {
        Some((capped, after)) => Collected {
            r: r_items(Value::Array(items.into_iter().map(enc).collect())),
            after,
            capped,
            hint,
            ok: true,
            h,
            clone: None,
        },
        None => Collected { r: r_panic(), after: [false, false], capped: false, hint, ok: false, h, clone: None },
    }
}

/// Apply one of the iterator consumers to `s` (the root by value, or `&mut root`; `S` is `Dyn` for
/// a boxed term, the concrete stack type for a static one).
fn consume<F: Sort, S: Signal<Frame = F>>(s: S, consumer: &str, n: usize, cap: usize) -> Collected {
    match consumer {
        "take" => {
            let mut it = s.take(n);
            let hint = take_hint(&it);
            drain_items(&mut it, cap, hint, F::f_to_json)
        }
        "ue" => drain_items(&mut s.until_exhausted(), cap, [0, 0, 0], F::f_to_json),
        "il" => drain_items(&mut s.into_interleaved_samples().into_iter(), cap, [0, 0, 0], F::s_to_json),
        c => panic!("unknown consumer {}", c),
    }
}
fn drain_items<T>(it: &mut dyn Iterator<Item = T>, cap: usize, hint: [u64; 3], enc: fn(T) -> Value) -> Collected {
    let mut items: Vec<T> = Vec::with_capacity(cap + 4);
    let (res, h, _) = measured(|| catch(|| drain(it, cap, &mut items)));
    collected(res, items, hint, h, enc)
}
fn take_hint<S: Signal>(it: &signal::Take<S>) -> [u64; 3] {
    let (lo, hi) = it.size_hint();
    [lo as u64, hi.map_or(u64::MAX >> 34, |x| x as u64), ExactSizeIterator::len(it) as u64]
}

/// The `*_clone` consumers: pull `k` items from the consumer's iterator, CLONE the iterator where it
/// stands (the real `Clone` impl of Take / UntilExhausted / IntoInterleavedSamplesIterator and of
/// every adaptor struct below it), drain the clone to its end (+2 calls), then drain the original
/// (+2 calls).  Logged: `r` = the k items followed by everything the clone yielded; `o.head` = items
/// pulled before the clone was taken (< k when the iterator ended first), `o.tail` = what the
/// original yielded afterwards, `o.after` / `o.after2` = the two further calls on the clone / the
/// original, `o.chint` = size hint and len of the clone (take only).  The clone itself allocates (the
/// boxes of the term builder) and is taken outside the measured windows.
fn drain_clone<T, I: Iterator<Item = T> + Clone>(
    it: &mut I,
    k: usize,
    cap: usize,
    hint: [u64; 3],
    hint_of: impl Fn(&I) -> [u64; 3],
    enc: impl Fn(T) -> Value + Copy,
) -> Collected {
    let mut items: Vec<T> = Vec::with_capacity(2 * cap + 8);
    let mut tail: Vec<T> = Vec::with_capacity(cap + 4);
    let mut h = [0i64; 3];
    let failed = |h: [i64; 3]| Collected { r: r_panic(), after: [false, false], capped: false, hint, ok: false, h, clone: Some(json!({"head": 0, "tail": [], "after2": [false, false], "chint": [0, 0, 0]})) };
    let (r1, h1, _) = measured(|| {
        catch(|| {
            let mut c = 0usize;
            while c < k {
                match it.next() {
                    Some(x) => {
                        items.push(x);
                        c += 1;
                    }
                    None => break,
                }
            }
            c
        })
    });
    for i in 0..3 {
        h[i] += h1[i];
    }
    let head = match r1 {
        Some(c) => c,
        None => return failed(h),
    };
    let mut cl = match catch(|| it.clone()) {
        Some(c) => c,
        None => return failed(h),
    };
    let chint = hint_of(&cl);
    let (r2, h2, _) = measured(|| catch(|| drain(&mut cl, cap, &mut items)));
    let (r3, h3, _) = measured(|| catch(|| drain(it, cap, &mut tail)));
    for i in 0..3 {
        h[i] += h2[i] + h3[i];
    }
    match (r2, r3) {
        (Some((capped, after)), Some((capped2, after2))) => Collected {
            r: r_items(Value::Array(items.into_iter().map(enc).collect())),
            after,
            capped: capped || capped2,
            hint,
            ok: true,
            h,
            clone: Some(json!({"head": head, "tail": Value::Array(tail.into_iter().map(enc).collect()),
                               "after2": [after2[0], after2[1]], "chint": chint})),
        },
        _ => failed(h),
    }
}
fn consume_clone<F: Sort, S: Signal<Frame = F> + Clone>(s: S, consumer: &str, n: usize, k: usize, cap: usize) -> Collected
where
    F::Channels: Clone,
{
    match consumer {
        "take_clone" => {
            let mut it = s.take(n);
            let hint = take_hint(&it);
            drain_clone(&mut it, k, cap, hint, take_hint, F::f_to_json)
        }
        "ue_clone" => {
            let mut it = s.until_exhausted();
            drain_clone(&mut it, k, cap, [0, 0, 0], |_| [0, 0, 0], F::f_to_json)
        }
        "il_clone" => {
            let mut it = s.into_interleaved_samples().into_iter();
            drain_clone(&mut it, k, cap, [0, 0, 0], |_| [0, 0, 0], F::s_to_json)
        }
        c => panic!("unknown consumer {}", c),
    }
}

/// The `drive` event: the consumer's iterator (take / until_exhausted / interleaved samples) is driven
/// by a PROGRAM of `Iterator` methods -- the required `next` and the provided ones a type may override
/// (`nth`, `size_hint`, `count`, `last`, `fold`, `for_each`, `find`, `position`, `any`, `all`, `collect`),
/// `ExactSizeIterator::len`, and the std adaptors that reach the iterator through `nth` (`skip`,
/// `step_by`).  Each call is made on the concrete iterator type (method syntax, so an override is what
/// runs).  Logged per call: its raw result and the pull counters after it.  Predicates are counting
/// closures (true at their k-th call: `find`, `position`, `any`; false at it: `all`), so no value is
/// ever inspected here.
enum Raw<T> {
    Opt(Option<T>),
    OptN(Option<usize>),
    B(bool),
    N(usize),
    Hint(usize, Option<usize>),
    Items(Vec<T>, [bool; 2]),
}
const SMALL: usize = 1 << 30;
fn run_prog<T, I: Iterator<Item = T>>(
    it: I,
    ops: &[Value],
    cap: usize,
    len_of: impl Fn(&I) -> Option<usize>,
    snap: &dyn Fn() -> Value,
    enc: impl Fn(T) -> Value + Copy,
) -> (Vec<Value>, Vec<Value>, [i64; 3]) {
    let mut it = Some(it);
    let mut res = Vec::new();
    let mut steps = Vec::new();
    let mut h = [0i64; 3];
    for op in ops {
        let name = op["op"].as_str().expect("op");
        let k = op["k"].as_u64().unwrap_or(0) as usize;
        // (result storage lives outside the measured window; the calls only move it)
        let mut store: Vec<T> = Vec::with_capacity(cap + 4);
        let items = &mut store;
        let fuse = cap;
        let terminal = matches!(name, "count" | "last" | "fold" | "for_each" | "vec" | "skip" | "step_by");
        let (r, h1, _) = if terminal {
            let i = it.take().expect("iterator already consumed");
            measured(|| {
                catch(move || match name {
                    "count" => Raw::N(i.count()),
                    "last" => Raw::Opt(i.last()),
                    "fold" => Raw::Items(
                        i.fold(std::mem::take(items), |mut v, x| {
                            assert!(v.len() < fuse, "fuse");
                            v.push(x);
                            v
                        }),
                        [false, false],
                    ),
                    "for_each" => {
                        i.for_each(|x| {
                            assert!(items.len() < fuse, "fuse");
                            items.push(x)
                        });
                        Raw::Items(std::mem::take(items), [false, false])
                    }
                    "vec" => Raw::Items(i.collect::<Vec<T>>(), [false, false]),
                    "skip" => {
                        let mut s = i.skip(k);
                        let (_, after) = drain(&mut s, cap, items);
                        Raw::Items(std::mem::take(items), after)
                    }
                    "step_by" => {
                        let mut s = i.step_by(k);
                        let (_, after) = drain(&mut s, cap, items);
                        Raw::Items(std::mem::take(items), after)
                    }
                    _ => unreachable!(),
                })
            })
        } else {
            let i = it.as_mut().expect("iterator already consumed");
            measured(|| {
                catch(|| {
                    let mut c = 0usize;
                    match name {
                        "next" => Raw::Opt(i.next()),
                        "nth" => Raw::Opt(i.nth(k)),
                        "find" => Raw::Opt(i.find(|_| {
                            c += 1;
                            c == k
                        })),
                        "position" => Raw::OptN(i.position(|_| {
                            c += 1;
                            c == k
                        })),
                        "any" => Raw::B(i.any(|_| {
                            c += 1;
                            c == k
                        })),
                        "all" => Raw::B(i.all(|_| {
                            c += 1;
                            c != k
                        })),
                        "hint" => {
                            let (lo, hi) = i.size_hint();
                            Raw::Hint(lo, hi)
                        }
                        "len" => Raw::N(len_of(&*i).expect("len of an iterator that is not ExactSize")),
                        "drain" => {
                            let (_, after) = drain(i, cap, items);
                            Raw::Items(std::mem::take(items), after)
                        }
                        o => panic!("unknown iterator method {}", o),
                    }
                })
            })
        };
        // `collect` allocates its Vec; a by-value method drops the iterator -- and with it the boxes
        // of the term builder -- inside the call: those frees are the harness's own
        if name != "vec" {
            for x in 0..(if terminal { 2 } else { 3 }) {
                h[x] += h1[x];
            }
        }
        let small = |n: usize| json!(n.min(SMALL));
        let v = match r {
            None => json!({"k": "panic"}),
            Some(Raw::Opt(Some(x))) => json!({"k": "some", "v": enc(x)}),
            Some(Raw::OptN(Some(n))) => json!({"k": "some", "v": small(n)}),
            Some(Raw::Opt(None)) | Some(Raw::OptN(None)) => json!({"k": "none"}),
            Some(Raw::B(b)) => json!({"k": "val", "v": b}),
            Some(Raw::N(n)) => json!({"k": "val", "v": small(n)}),
            Some(Raw::Hint(lo, hi)) => json!({"k": "hint", "lo": small(lo), "hi": hi.map_or(json!(-1), small)}),
            Some(Raw::Items(xs, after)) => json!({"k": "items", "v": Value::Array(xs.into_iter().map(enc).collect()), "after": [after[0], after[1]]}),
        };
        let stop = v["k"] == "panic";
        res.push(v);
        steps.push(snap());
        if stop {
            break;
        }
    }
    (res, steps, h)
}
fn no_len<I>(_: &I) -> Option<usize> {
    None
}
fn drive_prog<F: Sort, S: Signal<Frame = F>>(s: S, consumer: &str, n: usize, ops: &[Value], cap: usize, snap: &dyn Fn() -> Value) -> (Vec<Value>, Vec<Value>, [i64; 3]) {
    match consumer {
        "take" => run_prog(s.take(n), ops, cap, |t: &signal::Take<S>| Some(ExactSizeIterator::len(t)), snap, F::f_to_json),
        "ue" => run_prog(s.until_exhausted(), ops, cap, no_len, snap, F::f_to_json),
        "il" => run_prog(s.into_interleaved_samples().into_iter(), ops, cap, no_len, snap, F::s_to_json),
        c => panic!("unknown consumer {}", c),
    }
}

fn resume_one<S: Sort>(out: &mut Out, a: &Value, b: &mut Box<dyn Any>, pulls: &[Rc<Cell<u32>>], iters: &[Rc<Cell<u32>>]) {
    let d = b.downcast_mut::<Dyn<'static, S>>().expect("resume: source sort");
    let eb = catch(|| d.is_exhausted());
    let (r, h, _) = measured(|| catch(|| d.next()));
    let ea = catch(|| d.is_exhausted());
    let ok = eb.is_some() && r.is_some() && ea.is_some();
    let r = r.map_or(r_panic(), |f| r_some(f.f_to_json()));
    out.ev(
        "resume",
        a.clone(),
        r,
        json!({"ok": ok, "exh_before": eb.unwrap_or(false), "exh_after": ea.unwrap_or(false),
               "pulls": counts(pulls), "it": counts(iters)}),
        h,
    );
}

/// boxes an opaque source for the dynamic builder
struct KDyn;
fn dyn_noclone<'a, F: Sort, S: Signal<Frame = F> + 'a>(s: S) -> Dyn<'a, F> {
    Dyn::new_noclone(s)
}
impl<'a, F: Sort> st::Kont<'a, F> for KDyn {
    type Out = Dyn<'a, F>;
    on_all!(F, 'a, |self, s| dyn_noclone::<F, _>(s));
}
/// the term under test: boxed node by node (`Dyn`), or a statically typed stack (st.rs)
enum Root<'a, F: Sort> {
    Dy(Dyn<'a, F>),
    St(Box<dyn st::StRoot<'a, F> + 'a>),
}
impl<'a, F: Sort> Root<'a, F> {
    #[inline]
    fn next(&mut self) -> F {
        match self {
            Root::Dy(d) => d.next(),
            Root::St(s) => s.next(),
        }
    }
    #[inline]
    fn is_exhausted(&self) -> bool {
        match self {
            Root::Dy(d) => d.is_exhausted(),
            Root::St(s) => s.is_exhausted(),
        }
    }
}
/// frames of an opaque source's twin logged at reset
const TWIN_FRAMES: usize = 48;

fn run_exec<F: Sort>(out: &mut Out, ex: &[Value])
where
    F::Channels: Clone,
{
    let cfg = &ex[0]["cfg"];
    let ch = cfg["ch"].as_u64().expect("ch") as usize;
    let srcs: &[Value] = cfg["srcs"].as_array().expect("srcs");
    let term = &cfg["term"];
    // depth of the statically typed region along the receiver chain (0 / absent: every node boxed)
    let st = cfg["st"].as_u64().unwrap_or(0);
    assert!(st <= F::ST_MAX, "static depth {} is not built for sort {} x {}", st, F::FMT, ch);
    let ops = &ex[1..];
    let ns = srcs.len();
    let pulls: Vec<Rc<Cell<u32>>> = (0..ns).map(|_| Rc::new(Cell::new(0))).collect();
    let iters: Vec<Rc<Cell<u32>>> = (0..ns).map(|_| Rc::new(Cell::new(0))).collect();
    // sources used through by_ref live outside the term
    let mut ids = Vec::new();
    collect_byrefs(term, &mut ids);
    let mut owned: Vec<Option<Box<dyn Any>>> = (0..ns).map(|_| None).collect();
    for &j in &ids {
        let fmt = srcs[j]["fmt"].as_str().expect("source fmt");
        owned[j] = Some(with_sort!(fmt, ch, S => {
            let d: Dyn<'static, S> = mk_source::<S>(&srcs[j], pulls[j].clone(), iters[j].clone());
            Box::new(d) as Box<dyn Any>
        }));
    }
    let insp: InspLog = Rc::new(RefCell::new(Vec::with_capacity(4096)));
    let paths = Rc::new(RefCell::new(Vec::new()));
    // `lift` builds the term inside its closure: defer construction to the collect event
    let lift_first = ops.first().map_or(false, |o| o["ev"] == "collect" && o["a"]["consumer"] == "lift");
    let mut i = 0usize;
    {
        let mut cx = Cx {
            srcs,
            pulls: pulls.clone(),
            iters: iters.clone(),
            byref: owned.iter_mut().map(|o| o.as_mut()).collect(),
            lifted: None,
            insp: insp.clone(),
            paths: paths.clone(),
        };
        let mut root: Option<Root<F>> = None;
        let mut reset_r = r_unit();
        let mut exh0 = false;
        // opaque sources: the first frames of a twin built from the same description
        let twin: Vec<Value> = srcs
            .iter()
            .map(|sp| if sp["kind"] == "opaque" { Value::Array(catch(|| F::opaque(sp, st::KTwin(TWIN_FRAMES))).unwrap_or_default()) } else { json!([]) })
            .collect();
        if !lift_first {
            let made = catch(|| if st == 0 { Root::Dy(build::<F>(term, "r", &mut cx)) } else { Root::St(F::st_root(st, term, &mut cx)) });
            match made {
                Some(d) => {
                    exh0 = catch(|| d.is_exhausted()).unwrap_or(false);
                    root = Some(d);
                }
                None => reset_r = r_panic(),
            }
        }
        let built = root.is_some();
        out.line(&json!({"ev": "reset", "comp": "signal", "cfg": cfg, "r": reset_r,
                         "o": {"ok": built || lift_first, "built": built, "exh": exh0,
                               "pulls": counts(&pulls), "it": counts(&iters), "twin": twin}}));
        if !built && !lift_first {
            return;
        }
        while i < ops.len() {
            let op = &ops[i];
            let ev = op["ev"].as_str().expect("ev");
            let a = &op["a"];
            match ev {
                "next" => {
                    let r = root.as_mut().expect("next on a consumed term");
                    let eb = catch(|| r.is_exhausted());
                    insp.borrow_mut().clear();
                    let (res, h, _) = measured(|| catch(|| r.next()));
                    let ea = catch(|| r.is_exhausted());
                    let ok = eb.is_some() && res.is_some() && ea.is_some();
                    let seen: Vec<Value> = insp.borrow().iter().map(|(id, enc, raw)| json!([paths.borrow()[*id], enc(*raw)])).collect();
                    out.ev(
                        "next",
                        a.clone(),
                        res.map_or(r_panic(), |f| r_some(f.f_to_json())),
                        json!({"ok": ok, "exh_before": eb.unwrap_or(false), "exh_after": ea.unwrap_or(false),
                               "pulls": counts(&pulls), "it": counts(&iters), "insp": seen}),
                        h,
                    );
                }
                "is_exhausted" => {
                    let r = root.as_ref().expect("is_exhausted on a consumed term");
                    let (res, h, _) = measured(|| catch(|| r.is_exhausted()));
                    out.ev(
                        "is_exhausted",
                        a.clone(),
                        res.map_or(r_panic(), |b| r_val(json!(b))),
                        json!({"ok": res.is_some(), "pulls": counts(&pulls), "it": counts(&iters)}),
                        h,
                    );
                }
                "clone" => {
                    // the root is replaced by its clone (the original is dropped): it must carry on
                    // exactly where the original stood
                    let res = {
                        match root.as_ref().expect("clone of a consumed term") {
                            Root::Dy(r) => catch(|| r.clone()),
                            Root::St(_) => panic!("a static stack is not cloned"),
                        }
                    };
                    let ok = res.is_some();
                    if let Some(c) = res {
                        root = Some(Root::Dy(c));
                    }
                    out.ev("clone", a.clone(), if ok { r_unit() } else { r_panic() },
                           json!({"ok": ok, "pulls": counts(&pulls), "it": counts(&iters)}), [0, 0, 0]);
                }
                "drop" => {
                    root = None;
                    out.ev("drop", a.clone(), r_unit(), json!({"ok": true, "pulls": counts(&pulls), "it": counts(&iters)}), [0, 0, 0]);
                    i += 1;
                    break;
                }
                "collect" => {
                    let consumer = a["consumer"].as_str().expect("consumer");
                    let n = a["n"].as_u64().unwrap_or(0) as usize;
                    let cap = a["cap"].as_u64().unwrap_or(64) as usize;
                    let byref = a["byref"].as_bool().unwrap_or(false);
                    let k = a["k"].as_u64().unwrap_or(0) as usize;
                    insp.borrow_mut().clear();
                    let c = if consumer == "lift" {
                        // lift(iter, |signal| term-with-that-signal).  The closure receives the real
                        // FromIterator; it becomes the (instrumented) leaf `src j` of the term.
                        let j = (a["j"].as_u64().expect("lift j") as usize) - 1;
                        let data: Vec<F> = srcs[j]["xs"].as_array().expect("xs").iter().map(F::f_from_json).collect();
                        let it = CountIter { data, pos: 0, calls: iters[j].clone(), ended: false };
                        let pj = pulls[j].clone();
                        let cxr = &mut cx;
                        // inside a static region the FromIterator is used as it came (no pull counter)
                        let raw = st::chain_depth(term, j).map_or(false, |d| d < st);
                        let made = catch(move || {
                            signal::lift(it, move |sig| {
                                cxr.lifted = Some((j, if raw {
                                    Box::new(sig) as Box<dyn Any>
                                } else {
                                    Box::new(Dyn::<'static, F>::new(Counted { inner: sig, calls: pj })) as Box<dyn Any>
                                }));
                                if st == 0 { build::<F>(term, "r", cxr) } else { Dyn::new_noclone(st::StSig(F::st_root(st, term, cxr))) }
                            })
                        });
                        match made {
                            Some(mut it) => {
                                let mut items: Vec<F> = Vec::with_capacity(cap + 4);
                                let (res, h, _) = measured(|| catch(|| drain(&mut it, cap, &mut items)));
                                collected(res, items, [0, 0, 0], h, F::f_to_json)
                            }
                            None => collected::<F>(None, Vec::new(), [0, 0, 0], [0, 0, 0], F::f_to_json),
                        }
                    } else if consumer.ends_with("_clone") {
                        // (`&mut S` is not Clone: these consumers always take the root by value)
                        match root.take().expect("collect on a consumed term") {
                            Root::Dy(d) => consume_clone::<F, _>(d, consumer, n, k, cap),
                            Root::St(_) => panic!("a static stack is not cloned"),
                        }
                    } else if byref {
                        match root.as_mut().expect("collect on a consumed term") {
                            Root::Dy(d) => consume::<F, _>(Signal::by_ref(d), consumer, n, cap),
                            Root::St(s) => s.consume_mut(consumer, n, cap),
                        }
                    } else {
                        match root.take().expect("collect on a consumed term") {
                            Root::Dy(d) => consume::<F, _>(d, consumer, n, cap),
                            Root::St(s) => s.consume(consumer, n, cap),
                        }
                    };
                    let seen = insp.borrow().len();
                    let mut o = json!({"ok": c.ok, "after": [c.after[0], c.after[1]], "capped": c.capped, "hint": c.hint,
                                       "pulls": counts(&pulls), "it": counts(&iters), "insp_calls": seen});
                    if let Some(Value::Object(extra)) = c.clone {
                        for (key, v) in extra {
                            o[key] = v;
                        }
                    }
                    out.ev("collect", a.clone(), c.r, o, c.h);
                    if root.is_none() {
                        i += 1;
                        break;
                    }
                }
                "drive" => {
                    // a program of Iterator methods on the consumer's iterator (see run_prog)
                    let consumer = a["consumer"].as_str().expect("consumer");
                    let n = a["n"].as_u64().unwrap_or(0) as usize;
                    let cap = a["cap"].as_u64().unwrap_or(64) as usize;
                    let byref = a["byref"].as_bool().unwrap_or(false);
                    let prog: &[Value] = a["ops"].as_array().expect("ops");
                    insp.borrow_mut().clear();
                    let snap = || counts(&pulls);
                    let (res, steps, h) = if byref {
                        match root.as_mut().expect("drive on a consumed term") {
                            Root::Dy(d) => drive_prog::<F, _>(Signal::by_ref(d), consumer, n, prog, cap, &snap),
                            Root::St(_) => panic!("iterator programs are not run on static stacks"),
                        }
                    } else {
                        match root.take().expect("drive on a consumed term") {
                            Root::Dy(d) => drive_prog::<F, _>(d, consumer, n, prog, cap, &snap),
                            Root::St(_) => panic!("iterator programs are not run on static stacks"),
                        }
                    };
                    let ok = res.len() == prog.len() && res.last().map_or(true, |v| v["k"] != "panic");
                    let seen = insp.borrow().len();
                    out.ev("drive", a.clone(), r_items(Value::Array(res)),
                           json!({"ok": ok, "steps": steps, "pulls": counts(&pulls), "it": counts(&iters), "insp_calls": seen}), h);
                    if root.is_none() {
                        i += 1;
                        break;
                    }
                }
                "resume" => break,
                e => panic!("unknown event {}", e),
            }
            i += 1;
        }
    }
    // the term is gone: borrowed sources are used directly
    while i < ops.len() {
        let op = &ops[i];
        let a = &op["a"];
        match op["ev"].as_str().expect("ev") {
            "resume" => {
                let j = (a["src"].as_u64().expect("src") as usize) - 1;
                let fmt = srcs[j]["fmt"].as_str().expect("source fmt");
                let b = owned[j].as_mut().expect("resume of a source that was not borrowed");
                with_sort!(fmt, ch, S => resume_one::<S>(out, a, b, &pulls, &iters));
            }
            e => panic!("event {} after the term was dropped", e),
        }
        i += 1;
    }
}

// ------------------------------------------------------------------------------------------
// seeded random stimuli: terms to depth 5, sources to length 40, 1-4 channels, all sorts

struct Gen {
    rng: Rng,
    ch: usize,
    srcs: Vec<Value>,
    lens: Vec<usize>,
    max_len: usize,
    /// adaptor kinds forced on the next nodes along the receiver chain (selector codes of `term`;
    /// 16 = zip_map with the addamp closure), and the leaf kind forced at its end
    force: std::collections::VecDeque<u64>,
    force_leaf: Option<&'static str>,
    /// values that tell a composition of two roundings / truncations from a single folded one: float
    /// samples with all mantissa bits random, gains that are neither 0 nor a power of two
    sharp: bool,
}
fn signed_of(f: &str) -> &'static str {
    match f {
        "u8" | "i8" => "i8",
        "i16" => "i16",
        "i32" | "u32" => "i32",
        "i64" => "i64",
        "f32" => "f32",
        _ => "f64",
    }
}
fn float_of(f: &str) -> &'static str {
    if f == "f64" || f == "i64" {
        "f64"
    } else {
        "f32"
    }
}
fn half(f: &str) -> f64 {
    match f {
        "i8" | "u8" => 128.0,
        "i16" => 32768.0,
        "i32" | "u32" => 2147483648.0,
        "i64" => 9223372036854775808.0,
        _ => 1.0,
    }
}
fn half_i(f: &str) -> i128 {
    match f {
        "i8" | "u8" => 1 << 7,
        "i16" => 1 << 15,
        "i32" | "u32" => 1 << 31,
        "i64" => 1 << 63,
        _ => panic!("half_i of a float format"),
    }
}
fn is_float(f: &str) -> bool {
    f == "f32" || f == "f64"
}
/// 32 / 64-bit integer formats: samples are logged as limbs, values come with all their bits random
fn is_wide(f: &str) -> bool {
    f == "i32" || f == "u32" || f == "i64"
}
/// Encode the integer sample whose signed amplitude (distance from equilibrium) is `a`.
fn enc_amp_i(f: &str, a: i128) -> Value {
    let h = half_i(f);
    let a = a.clamp(-h, h - 1);
    match f {
        "u8" => json!((h + a) as i64),
        "i8" | "i16" => json!(a as i64),
        "u32" => big(h + a),
        _ => big(a),
    }
}
/// Encode the value "amplitude x (fraction of full scale)" in format f.
fn enc(f: &str, x: f64) -> Value {
    match f {
        "f32" => f32f(x as f32),
        "f64" => f64f(x),
        _ => enc_amp_i(f, (x * half(f)).trunc() as i128),
    }
}
impl Gen {
    /// a random amplitude with |x| <= b: mostly short dyadics, sometimes full precision
    fn amp(&mut self, f: &str, b: f64) -> f64 {
        let b = b.max(0.0);
        if is_float(f) && (self.sharp || self.rng.chance(1, 5)) {
            let u = (self.rng.next() >> 11) as f64 / (1u64 << 53) as f64;
            return (2.0 * u - 1.0) * b;
        }
        let sh = if is_float(f) { *self.rng.pick(&[2u32, 3, 4, 6, 10]) } else { 15 };
        let q = (1u64 << sh) as f64;
        let m = (b * q).floor() as i64;
        self.rng.range(-m, m) as f64 / q
    }
    /// a random sample of format f with |amplitude| <= b (`abs`: amplitude >= 0).  Wide integer
    /// formats mostly get every bit random: values that need more significant bits than the mantissa
    /// of the format's float companion (24 for i32 / u32, 53 for i64).
    fn val(&mut self, f: &str, b: f64, abs: bool) -> Value {
        if is_wide(f) && !self.rng.chance(1, 6) {
            let m = ((b.max(0.0) * half(f)).floor() as i128).min(half_i(f) - 1);
            let r = (((self.rng.next() as u128) << 64) | self.rng.next() as u128) % (2 * m + 1) as u128;
            let a = r as i128 - m;
            return enc_amp_i(f, if abs { a.abs() } else { a });
        }
        let x = self.amp(f, b);
        enc(f, if abs { x.abs() } else { x })
    }
    fn gain(&mut self) -> f64 {
        if self.sharp {
            *self.rng.pick(&[-11.0, -9.0, -7.0, -6.0, -5.0, -3.0, 3.0, 5.0, 6.0, 7.0, 9.0, 10.0, 11.0]) / 8.0
        } else {
            self.rng.range(-12, 12) as f64 / 8.0
        }
    }
    fn frame(&mut self, f: &str, b: f64) -> Value {
        Value::Array((0..self.ch).map(|_| self.val(f, b, false)).collect())
    }
    fn new_source(&mut self, f: &str, b: f64, samples: bool) -> usize {
        let len = match self.rng.below(10) {
            0..=2 => self.rng.below(4),
            3..=7 => 4 + self.rng.below(9),
            _ => 13 + self.rng.below((self.max_len - 12) as u64),
        } as usize;
        let xs: Vec<Value> = if samples {
            let extra = self.rng.below(self.ch as u64) as usize;
            (0..len * self.ch + extra).map(|_| self.val(f, b, false)).collect()
        } else {
            (0..len).map(|_| self.frame(f, b)).collect()
        };
        self.srcs.push(json!({"fmt": f, "kind": if samples {"samples"} else {"frames"}, "xs": xs}));
        self.lens.push(len);
        self.srcs.len()
    }
    /// an opaque source (oscillator, noise, ...: f64 mono); its frames are whatever its twin yields
    fn new_opaque(&mut self, what: &str) -> usize {
        let rate = *self.rng.pick(&[8000.0, 44100.0, 48000.0, 96000.0]);
        let hz = *self.rng.pick(&[440.0, 1234.5, 0.125, 19999.0, 261.6255653005986]);
        let seed = self.rng.below(1 << 32);
        self.srcs.push(json!({"fmt": "f64", "kind": "opaque", "what": what, "xs": [],
                              "p": {"rate": f64f(rate), "hz": f64f(hz), "seed": seed}}));
        self.lens.push(usize::MAX);
        self.srcs.len()
    }
    fn leaf(&mut self, f: &str, b: f64) -> Value {
        let forced = self.force_leaf.take();
        let pickd = match forced {
            Some("src") => 0,
            Some("srcs") => 9,
            Some("byref") => 13,
            Some("eq") => 17,
            Some("gen") => 18,
            Some("genmut") => 19,
            Some(what) => {
                assert!(f == "f64" && self.ch == 1, "opaque sources yield f64 mono");
                return json!({"k": "opq", "j": self.new_opaque(what)});
            }
            None => self.rng.below(20),
        };
        match pickd {
            0..=8 => json!({"k": "src", "j": self.new_source(f, b, false)}),
            9..=12 => json!({"k": "srcs", "j": self.new_source(f, b, true)}),
            13..=16 => {
                let samples = self.rng.chance(1, 3);
                json!({"k": "byref", "j": self.new_source(f, b, samples)})
            }
            17 => json!({"k": "eq"}),
            18 => json!({"k": "gen", "c": self.frame(f, b)}),
            _ => {
                let n = 1 + self.rng.below(3);
                json!({"k": "genmut", "cs": (0..n).map(|_| self.frame(f, b)).collect::<Vec<_>>()})
            }
        }
    }
    /// a term of depth <= d at sample format f whose outputs stay within |amplitude| <= b
    /// (b < 1: every intermediate result is representable, every float -> int conversion in [-1, 1))
    fn term(&mut self, f: &str, d: u32, b: f64) -> Value {
        let eps = 2.0 / half(f).max(64.0);
        let forced = self.force.pop_front();
        if forced.is_none() && (d == 0 || self.rng.chance(1, 12)) {
            return self.leaf(f, b);
        }
        let d = d.max(1);
        let sf = signed_of(f);
        let ff = float_of(f);
        match forced.unwrap_or_else(|| self.rng.below(16)) {
            0 => {
                let fns: &[&str] = if b > 3.0 * eps { &["id", "rev", "inv"] } else { &["id", "rev"] };
                let fname = *self.rng.pick(fns);
                let cb = if fname == "inv" { b - eps } else { b };
                json!({"k": "map", "f": fname, "a": self.term(f, d - 1, cb)})
            }
            1 => json!({"k": "map", "f": "from_signed", "a": self.term(sf, d - 1, b)}),
            2 => json!({"k": "map", "f": "from_float", "a": self.term(ff, d - 1, b)}),
            3 => {
                let fname = *self.rng.pick(&["first", "second", "interleave"]);
                json!({"k": "zipmap", "f": fname, "a": self.term(f, d - 1, b), "b": self.term(f, d - 1, b)})
            }
            sel @ (4 | 5 | 16) => {
                let p = 0.3 + 0.4 * (self.rng.below(101) as f64 / 100.0);
                let k = if sel == 16 || (forced.is_none() && self.rng.chance(1, 4)) { "zipmap" } else { "add" };
                let a = self.term(f, d - 1, b * p - eps);
                let bb = self.term(sf, d - 1, b * (1.0 - p) - eps);
                if k == "zipmap" { json!({"k": k, "f": "addamp", "a": a, "b": bb}) } else { json!({"k": k, "a": a, "b": bb}) }
            }
            6 | 7 => json!({"k": "mul", "a": self.term(f, d - 1, b), "b": self.term(ff, d - 1, 1.0)}),
            8 => {
                let g = self.gain();
                json!({"k": "scale", "g": enc(ff, g), "a": self.term(f, d - 1, b / g.abs().max(1.0))})
            }
            9 => {
                let o = self.val(sf, 0.25 * b, false);
                json!({"k": "offset", "o": o, "a": self.term(f, d - 1, 0.75 * b - eps)})
            }
            10 => {
                let gs: Vec<f64> = (0..self.ch).map(|_| self.gain()).collect();
                let m = gs.iter().fold(1.0f64, |m, g| m.max(g.abs()));
                json!({"k": "scalepc", "gs": gs.iter().map(|g| enc(ff, *g)).collect::<Vec<_>>(), "a": self.term(f, d - 1, b / m)})
            }
            11 => {
                let os: Vec<Value> = (0..self.ch).map(|_| self.val(sf, 0.25 * b, false)).collect();
                json!({"k": "offsetpc", "os": os, "a": self.term(f, d - 1, 0.75 * b - eps)})
            }
            12 => {
                let th = self.val(sf, b, true);
                json!({"k": "clip", "th": th, "a": self.term(f, d - 1, b)})
            }
            13 => json!({"k": "inspect", "a": self.term(f, d - 1, b)}),
            _ => json!({"k": "delay", "n": self.rng.below(8), "a": self.term(f, d - 1, b)}),
        }
    }
}
/// outputs before exhaustion (None = never): used only to choose how many calls to make
fn est_len(t: &Value, lens: &[usize]) -> Option<usize> {
    match t["k"].as_str().unwrap() {
        "src" | "srcs" | "byref" => Some(lens[src_index(t)]),
        "eq" | "gen" | "genmut" | "opq" => None,
        "zipmap" | "add" | "mul" => match (est_len(&t["a"], lens), est_len(&t["b"], lens)) {
            (Some(x), Some(y)) => Some(x.min(y)),
            (x, None) => x,
            (None, y) => y,
        },
        "delay" => est_len(&t["a"], lens).map(|x| x + t["n"].as_u64().unwrap() as usize),
        "delaymax" => None,
        _ => est_len(&t["a"], lens),
    }
}
fn lift_candidates(t: &Value, f: &str, root: &str, srcs: &[Value], out: &mut Vec<usize>) {
    let k = t["k"].as_str().unwrap();
    match k {
        "src" => {
            if f == root {
                out.push(src_index(t) + 1);
            }
        }
        "map" => {
            let cf = match t["f"].as_str().unwrap() { "from_signed" => signed_of(f), "from_float" => float_of(f), _ => f };
            lift_candidates(&t["a"], cf, root, srcs, out)
        }
        "zipmap" => {
            lift_candidates(&t["a"], f, root, srcs, out);
            lift_candidates(&t["b"], if t["f"] == "addamp" { signed_of(f) } else { f }, root, srcs, out)
        }
        "add" => {
            lift_candidates(&t["a"], f, root, srcs, out);
            lift_candidates(&t["b"], signed_of(f), root, srcs, out)
        }
        "mul" => {
            lift_candidates(&t["a"], f, root, srcs, out);
            lift_candidates(&t["b"], float_of(f), root, srcs, out)
        }
        "srcs" | "byref" | "eq" | "gen" | "genmut" | "opq" => {}
        _ => lift_candidates(&t["a"], f, root, srcs, out),
    }
}

/// one execution over `term` (sources in g.srcs): plain calls, a drop with resumes, or a consumer
fn script(g: &mut Gen, fmt: &str, st: u64, term: &Value) -> Vec<Value> {
    let x0 = json!({"x": 0});
    let len = est_len(&term, &g.lens);
    let mut ids = Vec::new();
    collect_byrefs(&term, &mut ids);
    let mut ex = vec![json!({"ev": "reset", "comp": "signal",
                             "cfg": {"ch": g.ch, "fmt": fmt, "st": st, "srcs": g.srcs.clone(), "term": term.clone()}})];
    let horizon = len.map_or(6, |l| l + 3).min(60);
    // `&mut S` is not Clone; static stacks and (boxed) opaque sources are not cloned
    let clonable = ids.is_empty() && st == 0 && !g.srcs.iter().any(|s| s["kind"] == "opaque");
    let resumes = |g: &mut Gen, ex: &mut Vec<Value>| {
        for &j in &ids {
            for _ in 0..(1 + g.rng.below(4)) {
                ex.push(json!({"ev": "resume", "a": {"src": j + 1}}));
            }
        }
    };
    match g.rng.below(10) {
        0..=3 => {
            // plain calls, is_exhausted sprinkled in
            for _ in 0..horizon {
                if g.rng.chance(1, 4) {
                    ex.push(json!({"ev": "is_exhausted", "a": x0}));
                }
                if clonable && g.rng.chance(1, 6) {
                    ex.push(json!({"ev": "clone", "a": x0}));
                }
                ex.push(json!({"ev": "next", "a": x0}));
            }
            ex.push(json!({"ev": "is_exhausted", "a": x0}));
        }
        4 => {
            let d = g.rng.below(horizon as u64 + 1);
            for _ in 0..d {
                ex.push(json!({"ev": "next", "a": x0}));
            }
            ex.push(json!({"ev": "drop", "a": x0}));
            resumes(g, &mut ex);
        }
        _ => {
            let mut cands = Vec::new();
            lift_candidates(&term, fmt, fmt, &g.srcs, &mut cands);
            let n0 = g.rng.below(4);
            let mut kinds = vec!["take"];
            if len.is_some() {
                kinds.push("ue");
                kinds.push("il");
                if !cands.is_empty() {
                    kinds.push("lift");
                }
            }
            if clonable {
                kinds.push("take_clone");
                if len.is_some() {
                    kinds.push("ue_clone");
                    kinds.push("il_clone");
                    kinds.push("il_clone");
                }
            }
            let c = *g.rng.pick(&kinds);
            let cloning = c.ends_with("_clone");
            let byref = c != "lift" && !cloning && g.rng.chance(1, 3);
            if c != "lift" {
                for _ in 0..n0 {
                    ex.push(json!({"ev": "next", "a": x0}));
                }
            }
            let n = g.rng.below(horizon as u64 + 2);
            let j = if c == "lift" { *g.rng.pick(&cands) } else { 0 };
            // where the clone is taken: anywhere in the stream (for interleaved samples mostly inside a frame)
            let total = match c {
                "take_clone" => n,
                "ue_clone" => len.unwrap_or(0) as u64,
                "il_clone" => (len.unwrap_or(0) * g.ch) as u64,
                _ => 0,
            };
            let k = if cloning { g.rng.below(total + 2) } else { 0 };
            ex.push(json!({"ev": "collect", "a": {"consumer": c, "n": n, "k": k, "cap": 400, "byref": byref, "j": j}}));
            if byref {
                for _ in 0..(1 + g.rng.below(3)) {
                    ex.push(json!({"ev": "next", "a": x0}));
                }
                ex.push(json!({"ev": "is_exhausted", "a": x0}));
            } else {
                resumes(g, &mut ex);
            }
        }
    }
    ex
}

fn gen(seed: u64, size: &str, path: &str) {
    let n_exec = if size == "thorough" { 4000 } else { 300 };
    let mut g = Gen { rng: Rng::new(seed), ch: 1, srcs: Vec::new(), lens: Vec::new(), max_len: 40, force: Default::default(), force_leaf: None, sharp: false };
    let mut execs = Vec::new();
    for e in 0..n_exec {
        // every fourth execution has a wide integer root (i32, i64, u32 in turn)
        let fmt = if e % 4 == 3 { ["i32", "i64", "u32"][(e / 4) % 3] } else { ["i16", "u8", "f64"][(e - e / 4) % 3] };
        g.ch = 1 + g.rng.below(4) as usize;
        g.srcs.clear();
        g.lens.clear();
        let depth = 1 + g.rng.below(5) as u32;
        let term = g.term(fmt, depth, 0.9);
        let ex = script(&mut g, fmt, 0, &term);
        execs.push(ex);
    }
    gen_extremes(&mut g, size == "thorough", &mut execs);
    gen_clones(size == "thorough", &mut execs);
    gen_static(seed, size == "thorough", &mut execs);
    gen_iters(seed, size == "thorough", &mut execs);
    write_stimuli(path, &execs);
}

/// Statically typed stacks (st.rs): the receiver chain of the term is built without boxing, `st`
/// levels deep, so that each adaptor method is called on the concrete type below it.  Own random
/// stream (the executions of `gen` stay what they were).  Families:
///   A  every ordered pair (method, receiver adaptor), random parameters and contents, st = 2
///   B  every method on every source type (st = 2), and the consumers / by_ref on `Adaptor<boxed>` (st = 1)
///   C  every source type on its own (st = 1: the consumers are called on it)
///   D  opaque sources (oscillators, noise, phase / step signals; f64 mono): alone, under every method,
///      and boxed (st = 0); the spec takes their frames from a twin recorded at reset
///   E  the far end of delay's parameter range (delaymax = usize::MAX - m), stacked both ways round
///   F  deeper random terms with a static receiver chain
///   G  pairs of the same family (gain on gain, offset on offset, clip on clip, delay on delay, map on
///      map) over sources of 8+ frames with "sharp" values: two roundings / truncations in a row differ
///      from one folded operation
fn gen_static(seed: u64, thorough: bool, execs: &mut Vec<Vec<Value>>) {
    let mut g = Gen { rng: Rng::new(seed ^ 0x5354_4154_4943), ch: 1, srcs: Vec::new(), lens: Vec::new(), max_len: 20,
                      force: Default::default(), force_leaf: None, sharp: false };
    // selector codes of Gen::term, one per adaptor method (16: zip_map with the addamp closure)
    const SELS: [u64; 14] = [0, 1, 2, 3, 16, 4, 6, 8, 9, 10, 11, 12, 13, 14];
    const LEAVES: [&str; 6] = ["src", "srcs", "byref", "eq", "gen", "genmut"];
    const OPAQUE: [&str; 8] = ["const_hz", "hz", "phase", "sine", "saw", "square", "noise_simplex", "noise"];
    let sorts: [(&str, usize); 2] = [("i16", 2), ("f64", 1)]; // Sort::ST_MAX > 0
    let reps = if thorough { 3 } else { 1 };
    let x0 = json!({"x": 0});
    let one = |g: &mut Gen, fmt: &str, ch: usize, st: u64, force: &[u64], leaf: Option<&'static str>, depth: u32, execs: &mut Vec<Vec<Value>>| {
        g.ch = ch;
        g.srcs.clear();
        g.lens.clear();
        g.force = force.iter().copied().collect();
        g.force_leaf = leaf;
        let term = g.term(fmt, depth, 0.9);
        g.force.clear();
        g.force_leaf = None;
        let ex = script(g, fmt, st, &term);
        execs.push(ex);
    };
    for &(fmt, ch) in &sorts {
        for _ in 0..reps {
            // A
            for &s1 in &SELS {
                for &s2 in &SELS {
                    one(&mut g, fmt, ch, 2, &[s1, s2], None, 2, execs);
                }
            }
            // B
            for &s1 in &SELS {
                for &lf in &LEAVES {
                    one(&mut g, fmt, ch, 2, &[s1], Some(lf), 1, execs);
                    one(&mut g, fmt, ch, 1, &[s1], Some(lf), 1, execs);
                }
            }
            // C
            for &lf in &LEAVES {
                for _ in 0..3 {
                    one(&mut g, fmt, ch, 1, &[], Some(lf), 0, execs);
                }
            }
        }
    }
    // D
    for _ in 0..reps {
        for &w in &OPAQUE {
            one(&mut g, "f64", 1, 1, &[], Some(w), 0, execs);
            one(&mut g, "f64", 1, 0, &[], Some(w), 0, execs);
            for &s1 in &SELS {
                one(&mut g, "f64", 1, 2, &[s1], Some(w), 1, execs);
            }
            one(&mut g, "f64", 1, 1, &[8], Some(w), 1, execs);
            let sx = *g.rng.pick(&SELS);
            one(&mut g, "f64", 1, 0, &[sx], Some(w), 1, execs);
        }
    }
    // E
    for &(fmt, ch) in &sorts {
        g.ch = ch;
        let dm = |m: u64, a: Value| json!({"k": "delaymax", "m": m, "a": a});
        let dl = |n: u64, a: Value| json!({"k": "delay", "n": n, "a": a});
        for (i, lf) in ["src", "byref", "gen"].iter().enumerate() {
            let mut terms = Vec::new();
            let mut srcs = Vec::new();
            for v in 0..9 {
                g.srcs.clear();
                g.lens.clear();
                g.force_leaf = Some(*lf);
                let a = g.leaf(fmt, 0.9);
                let m = g.rng.below(3);
                let n = g.rng.below(4);
                terms.push(match v {
                    0 => dm(0, a),
                    1 => dl(1, dm(0, a)),
                    2 => dl(n, dm(m, a)),
                    3 => dm(0, dl(1, a)),
                    4 => dm(m, dl(n, a)),
                    5 => dm(0, dm(0, a)),
                    6 => dm(m, dm(1, a)),
                    7 => dl(0, dl(0, a)),
                    _ => dl(n, dl(1 + m, a)),
                });
                srcs.push(g.srcs.clone());
            }
            for (v, (term, sr)) in terms.into_iter().zip(srcs).enumerate() {
                for st in [2u64, 0] {
                    if st == 0 && (v + i) % 2 == 1 {
                        continue;
                    }
                    let mut ex = vec![json!({"ev": "reset", "comp": "signal", "cfg": {"ch": ch, "fmt": fmt, "st": st, "srcs": sr.clone(), "term": term.clone()}})];
                    ex.push(json!({"ev": "is_exhausted", "a": x0}));
                    for _ in 0..5 {
                        ex.push(json!({"ev": "next", "a": x0}));
                    }
                    ex.push(json!({"ev": "is_exhausted", "a": x0}));
                    if v % 3 == 0 {
                        ex.push(json!({"ev": "collect", "a": {"consumer": "take", "n": 3, "k": 0, "cap": 64, "byref": true, "j": 0}}));
                    }
                    if *lf == "byref" && v % 2 == 1 {
                        ex.push(json!({"ev": "drop", "a": x0}));
                        ex.push(json!({"ev": "resume", "a": {"src": 1}}));
                        ex.push(json!({"ev": "resume", "a": {"src": 1}}));
                    }
                    execs.push(ex);
                }
            }
        }
    }
    // G
    let fams: [&[u64]; 5] = [&[8, 10, 6], &[9, 11, 4, 16], &[12], &[14], &[0]];
    for &(fmt, ch) in &sorts {
        for fam in &fams {
            for &s1 in fam.iter() {
                for &s2 in fam.iter() {
                    for r in 0..(if thorough { 8 } else { 3 }) {
                        g.ch = ch;
                        g.srcs.clear();
                        g.lens.clear();
                        g.sharp = true;
                        g.force = [s1, s2].into_iter().collect();
                        // (the receiver chain ends in a from_iter source of 8..12 frames)
                        let term = loop {
                            g.srcs.clear();
                            g.lens.clear();
                            g.force = [s1, s2].into_iter().collect();
                            g.force_leaf = Some("src");
                            let t = g.term(fmt, 2, 0.9);
                            g.force_leaf = None;
                            if est_len(&t, &g.lens).map_or(false, |l| (8..=14).contains(&l)) {
                                break t;
                            }
                        };
                        g.sharp = false;
                        let st = if r % 3 == 2 { 0 } else { 2 };
                        let mut ex = vec![json!({"ev": "reset", "comp": "signal", "cfg": {"ch": ch, "fmt": fmt, "st": st, "srcs": g.srcs.clone(), "term": term}})];
                        for _ in 0..(est_len(&ex[0]["cfg"]["term"], &g.lens).unwrap() + 2) {
                            ex.push(json!({"ev": "next", "a": x0}));
                        }
                        ex.push(json!({"ev": "is_exhausted", "a": x0}));
                        execs.push(ex);
                    }
                }
            }
        }
    }
    // F
    for e in 0..(if thorough { 400 } else { 40 }) {
        let (fmt, ch) = sorts[e % 2];
        let depth = 2 + g.rng.below(4) as u32;
        one(&mut g, fmt, ch, 1 + (e as u64 / 2) % 2, &[], None, depth, execs);
    }
}

/// Sources holding the extreme samples of the format (most negative, most positive, equilibrium and
/// its neighbours) through every adaptor whose result stays representable on them: the boundary of
/// "every content of the source signals".  The wide integer formats also get values next to the
/// extremes and values with alternating bit patterns (no float type holds them exactly).
fn gen_extremes(g: &mut Gen, thorough: bool, execs: &mut Vec<Vec<Value>>) {
    let x0 = json!({"x": 0});
    for &fmt in &["i16", "u8", "f64", "i32", "i64", "u32"] {
        let wide = is_wide(fmt);
        let sf = signed_of(fmt);
        let ff = float_of(fmt);
        let hs = half(sf).max(64.0);
        // samples: MIN, MAX, 0, +-1 LSB, and mid values; rotated over the channels
        let vals: Vec<Value> = if is_float(fmt) {
            [-1.0, 1.0 - 1.0 / 64.0, 0.0, 1.0 / 64.0, -1.0 / 64.0, -0.5, 0.25].iter().map(|x| enc(fmt, *x)).collect()
        } else {
            let h = half_i(fmt);
            let mut a = vec![-h, h - 1, 0, 1, -1, -h / 2, h / 4];
            if wide {
                a.extend([h - 2, -h + 1, h / 3, -(h / 5) - 1, (h / 7) | 1]);
            }
            a.iter().map(|x| enc_amp_i(fmt, *x)).collect()
        };
        for ch in 1..=(if thorough { 3 } else { 2 }) {
            g.ch = ch;
            let mk_src = |rot: usize| -> Value {
                let xs: Vec<Value> = (0..vals.len())
                    .map(|i| Value::Array((0..ch).map(|c| vals[(i + c * rot) % vals.len()].clone()).collect()))
                    .collect();
                json!({"fmt": fmt, "kind": "frames", "xs": xs})
            };
            let leaf = json!({"k": "src", "j": 1});
            let mut terms: Vec<Value> = vec![
                leaf.clone(),
                json!({"k": "map", "f": "id", "a": leaf.clone()}),
                json!({"k": "map", "f": "rev", "a": leaf.clone()}),
                json!({"k": "inspect", "a": leaf.clone()}),
                json!({"k": "delay", "n": 2, "a": leaf.clone()}),
                json!({"k": "offset", "o": enc(sf, 0.0), "a": leaf.clone()}),
                json!({"k": "scale", "g": enc(ff, 0.5), "a": leaf.clone()}),
                json!({"k": "scale", "g": enc(ff, 0.0), "a": leaf.clone()}),
                json!({"k": "zipmap", "f": "first", "a": leaf.clone(), "b": json!({"k": "src", "j": 2})}),
                json!({"k": "zipmap", "f": "second", "a": leaf.clone(), "b": json!({"k": "src", "j": 2})}),
                json!({"k": "zipmap", "f": "interleave", "a": leaf.clone(), "b": json!({"k": "src", "j": 2})}),
                // adding silence must change nothing, whatever the sample
                json!({"k": "add", "a": leaf.clone(), "b": json!({"k": "eq"})}),
                json!({"k": "zipmap", "f": "addamp", "a": leaf.clone(), "b": json!({"k": "eq"})}),
            ];
            if !wide {
                // (the largest 32 / 64-bit samples round to 1.0 in their float format: gain 1 would leave
                // the domain [-1, 1) of the conversion back)
                terms.push(json!({"k": "scale", "g": enc(ff, 1.0), "a": leaf.clone()}));
            }
            for th in [0.0, 1.0 / hs, 0.25, 0.5, 1.0 - 1.0 / hs] {
                terms.push(json!({"k": "clip", "th": enc(sf, th), "a": leaf.clone()}));
            }
            let os: Vec<Value> = (0..ch).map(|_| enc(sf, 0.0)).collect();
            terms.push(json!({"k": "offsetpc", "os": os, "a": leaf.clone()}));
            let gs: Vec<Value> = (0..ch).map(|c| enc(ff, if c % 2 == 0 { if wide { 0.25 } else { 1.0 } } else { 0.5 })).collect();
            terms.push(json!({"k": "scalepc", "gs": gs, "a": leaf.clone()}));
            if is_float(fmt) {
                // float frames may exceed full scale; clipping at or above 1.0 must still clip
                for th in [1.0, 1.5, 2.0] {
                    terms.push(json!({"k": "clip", "th": enc(sf, th), "a": json!({"k": "src", "j": 3})}));
                    terms.push(json!({"k": "clip", "th": enc(sf, th),
                                      "a": json!({"k": "scale", "g": enc(ff, 2.0), "a": leaf.clone()})}));
                }
            }
            for term in terms {
                let mut srcs = vec![mk_src(1), mk_src(2)];
                if is_float(fmt) {
                    let big = [-3.0, 2.5, 1.0, -1.0, 1.75, -1.25, 0.5];
                    let xs: Vec<Value> = (0..big.len())
                        .map(|i| Value::Array((0..ch).map(|c| enc(fmt, big[(i + c) % big.len()])).collect()))
                        .collect();
                    srcs.push(json!({"fmt": fmt, "kind": "frames", "xs": xs}));
                }
                let mut ex = vec![json!({"ev": "reset", "comp": "signal",
                                         "cfg": {"ch": ch, "fmt": fmt, "srcs": srcs, "term": term}})];
                for _ in 0..(vals.len() + 3) {
                    ex.push(json!({"ev": "next", "a": x0}));
                }
                ex.push(json!({"ev": "is_exhausted", "a": x0}));
                execs.push(ex);
            }
        }
    }
}

/// `Clone` of the consumers and adaptors, taken mid-stream at EVERY position: a clone continues
/// exactly like the original.  Interleaved samples of 2..4-channel frames cloned after k samples for
/// every k (inside a frame, on a frame boundary, inside the last frame, after the end); take /
/// until_exhausted cloned while a delay is still counting down and while a gen_mut closure is
/// mid-cycle; the signal itself cloned between `next` calls.
fn gen_clones(thorough: bool, execs: &mut Vec<Vec<Value>>) {
    let x0 = json!({"x": 0});
    let fmts: &[&str] = if thorough { &["i16", "f64", "i32", "u8"] } else { &["i16", "f64"] };
    for &fmt in fmts {
        let sf = signed_of(fmt);
        for ch in 1..=(if thorough { 4 } else { 3 }) {
            let frames = 3usize;
            let frame = |base: f64| -> Value { Value::Array((0..ch).map(|c| enc(fmt, base + 0.03125 * c as f64)).collect()) };
            let src = |sign: f64, f: &str| -> Value {
                let xs: Vec<Value> = (0..frames)
                    .map(|i| Value::Array((0..ch).map(|c| enc(f, sign * (0.0625 + 0.125 * i as f64 + 0.03125 * c as f64))).collect()))
                    .collect();
                json!({"fmt": f, "kind": "frames", "xs": xs})
            };
            let srcs = json!([src(1.0, fmt), src(-1.0, sf)]);
            let s1 = json!({"k": "src", "j": 1});
            let s2 = json!({"k": "src", "j": 2});
            let genmut = json!({"k": "genmut", "cs": [frame(0.5), frame(-0.25), frame(0.125)]});
            let t_delay = json!({"k": "delay", "n": 1, "a": s1.clone()});
            let t_add = json!({"k": "add", "a": s1.clone(), "b": s2.clone()});
            let t_mix = json!({"k": "zipmap", "f": "interleave", "a": json!({"k": "delay", "n": 2, "a": s1.clone()}),
                               "b": json!({"k": "inspect", "a": genmut.clone()})});
            let reset = |term: &Value| json!({"ev": "reset", "comp": "signal", "cfg": {"ch": ch, "fmt": fmt, "srcs": srcs.clone(), "term": term.clone()}});
            let collect = |c: &str, n: usize, k: usize| json!({"ev": "collect", "a": {"consumer": c, "n": n, "k": k, "cap": 64, "byref": false, "j": 0}});
            // interleaved samples: every clone position
            for (term, len) in [(&s1, frames), (&t_delay, frames + 1), (&t_add, frames)] {
                if ch == 1 && !std::ptr::eq(term, &s1) {
                    continue;
                }
                for k in 0..=(len * ch + 1) {
                    execs.push(vec![reset(term), collect("il_clone", 0, k)]);
                }
            }
            if ch <= 2 {
                // frames: clone inside the delay's silence, at its end, mid-cycle of the gen_mut closure, at the end
                for k in 0..=(frames + 3) {
                    execs.push(vec![reset(&t_mix), collect("ue_clone", 0, k)]);
                    execs.push(vec![reset(&t_mix), collect("take_clone", frames + 4, k)]);
                }
                execs.push(vec![reset(&genmut), collect("take_clone", 5, 2)]);
                // the signal itself, cloned between calls
                let mut ex = vec![reset(&t_mix)];
                for _ in 0..(frames + 4) {
                    ex.push(json!({"ev": "next", "a": x0}));
                    ex.push(json!({"ev": "clone", "a": x0}));
                }
                ex.push(json!({"ev": "is_exhausted", "a": x0}));
                ex.push(collect("il_clone", 0, 1));
                execs.push(ex);
            }
        }
    }
}

/// The provided `Iterator` methods of the three consumers (event `drive`): every method at EVERY
/// position of a short stream -- `nth(k)` / `skip(k)` / `step_by(k)` / the counting predicates for every
/// k up to past the end, each terminal method (`count`, `last`, `fold`, `for_each`, `collect`) after
/// 0, 1, L-1, L, L+1 items, `size_hint` / `len` in between -- by value and over `&mut root` (the root
/// carries on afterwards), then random programs over random terms.  Own random stream.
fn gen_iters(seed: u64, thorough: bool, execs: &mut Vec<Vec<Value>>) {
    let x0 = json!({"x": 0});
    let op = |o: &str, k: usize| json!({"op": o, "k": k});
    let sorts: &[(&str, usize)] = if thorough { &[("i16", 2), ("f64", 1), ("u8", 3), ("i32", 2)] } else { &[("i16", 2), ("f64", 1)] };
    let mut flip = 0usize;
    for &(fmt, ch) in sorts {
        let sf = signed_of(fmt);
        let frames = 4usize;
        let src = |sign: f64, f: &str, len: usize| -> Value {
            let xs: Vec<Value> = (0..len)
                .map(|i| Value::Array((0..ch).map(|c| enc(f, sign * (0.0625 + 0.125 * i as f64 + 0.03125 * c as f64))).collect()))
                .collect();
            json!({"fmt": f, "kind": "frames", "xs": xs})
        };
        let srcs = json!([src(1.0, fmt, frames), src(-1.0, sf, frames + 2)]);
        let s1 = json!({"k": "src", "j": 1});
        let t_add = json!({"k": "add", "a": json!({"k": "delay", "n": 1, "a": json!({"k": "inspect", "a": s1.clone()})}), "b": json!({"k": "src", "j": 2})});
        let reset = |term: &Value| json!({"ev": "reset", "comp": "signal", "cfg": {"ch": ch, "fmt": fmt, "st": 0, "srcs": srcs.clone(), "term": term.clone()}});
        for (term, flen) in [(&s1, frames), (&t_add, frames + 1)] {
            for c in ["take", "ue", "il"] {
                // take(n) runs past the end of the finite source (equilibrium frames follow)
                let n = flen + 1;
                let len = match c {
                    "take" => n,
                    "ue" => flen,
                    _ => flen * ch,
                };
                let mut progs: Vec<Vec<Value>> = Vec::new();
                let sized = |v: &mut Vec<Value>| {
                    v.push(op("hint", 0));
                    if c == "take" {
                        v.push(op("len", 0));
                    }
                };
                for k in 0..=(len + 1) {
                    let mut v = vec![op("nth", k)];
                    sized(&mut v);
                    v.push(op("drain", 0));
                    v.push(op("count", 0));
                    progs.push(v);
                    let mut v = vec![op("next", 0), op("nth", k)];
                    sized(&mut v);
                    v.push(op("nth", k));
                    sized(&mut v);
                    v.push(op(["fold", "count", "last", "for_each", "vec"][k % 5], 0));
                    progs.push(v);
                    progs.push(vec![op("skip", k)]);
                    progs.push(vec![op("next", 0), op("skip", k)]);
                    if k >= 1 {
                        progs.push(vec![op("step_by", k)]);
                        progs.push(vec![op("nth", 0), op("step_by", k)]);
                        for p in ["find", "position", "any", "all"] {
                            let mut v = vec![op(p, k)];
                            sized(&mut v);
                            v.push(op(p, 1));
                            v.push(op("drain", 0));
                            progs.push(v);
                        }
                    }
                }
                for j in [0, 1, len - 1, len, len + 1] {
                    for t in ["count", "last", "fold", "for_each", "vec", "drain"] {
                        let mut v: Vec<Value> = (0..j).map(|_| op("next", 0)).collect();
                        sized(&mut v);
                        v.push(op(t, 0));
                        if t == "drain" {
                            sized(&mut v);
                            v.push(op("nth", 0));
                            v.push(op("last", 0));
                        }
                        progs.push(v);
                    }
                }
                for prog in progs {
                    flip += 1;
                    let byref = flip % 3 == 0;
                    let n0 = if flip % 5 == 0 { 1 } else { 0 };
                    let mut ex = vec![reset(term)];
                    for _ in 0..n0 {
                        ex.push(json!({"ev": "next", "a": x0}));
                    }
                    ex.push(json!({"ev": "drive", "a": {"consumer": c, "n": n, "cap": 64, "byref": byref, "ops": prog}}));
                    if byref {
                        ex.push(json!({"ev": "next", "a": x0}));
                        ex.push(json!({"ev": "is_exhausted", "a": x0}));
                        ex.push(json!({"ev": "next", "a": x0}));
                    }
                    execs.push(ex);
                }
            }
        }
    }
    // random programs over random terms
    let mut g = Gen { rng: Rng::new(seed ^ 0x17e2_a70c_5eed), ch: 1, srcs: Vec::new(), lens: Vec::new(), max_len: 14, force: Default::default(), force_leaf: None, sharp: false };
    for e in 0..(if thorough { 600 } else { 60 }) {
        let fmt = ["i16", "u8", "f64", "i32"][e % 4];
        g.ch = 1 + g.rng.below(4) as usize;
        g.srcs.clear();
        g.lens.clear();
        let depth = g.rng.below(4) as u32;
        let term = g.term(fmt, depth, 0.9);
        if g.srcs.iter().any(|s| s["kind"] == "opaque") {
            continue;
        }
        let len = est_len(&term, &g.lens);
        let mut ex = vec![json!({"ev": "reset", "comp": "signal",
                                 "cfg": {"ch": g.ch, "fmt": fmt, "st": 0, "srcs": g.srcs.clone(), "term": term.clone()}})];
        for _ in 0..g.rng.below(3) {
            ex.push(json!({"ev": "next", "a": x0}));
        }
        let c = if len.is_some() { *g.rng.pick(&["take", "ue", "il"]) } else { "take" };
        let n = g.rng.below(len.unwrap_or(6) as u64 + 4) as usize;
        let total = match c {
            "take" => n,
            "ue" => len.unwrap_or(0),
            _ => len.unwrap_or(0) * g.ch,
        } as u64;
        let mut prog = Vec::new();
        for _ in 0..g.rng.below(5) {
            let k = g.rng.below(total / 2 + 2) as usize;
            let o = *g.rng.pick(&["next", "next", "nth", "nth", "nth", "find", "position", "any", "all", "hint", "drain"]);
            let o = if o == "hint" && c == "take" && g.rng.chance(1, 2) { "len" } else { o };
            prog.push(op(o, if matches!(o, "find" | "position" | "any" | "all") { k + 1 } else { k }));
        }
        let t = *g.rng.pick(&["count", "last", "fold", "for_each", "vec", "skip", "skip", "step_by", "step_by", "drain"]);
        prog.push(op(t, if t == "step_by" { 1 + g.rng.below(total + 1) as usize } else { g.rng.below(total + 2) as usize }));
        let byref = g.rng.chance(1, 2);
        ex.push(json!({"ev": "drive", "a": {"consumer": c, "n": n, "cap": 400, "byref": byref, "ops": prog}}));
        if byref {
            for _ in 0..(1 + g.rng.below(3)) {
                ex.push(json!({"ev": "next", "a": x0}));
            }
            ex.push(json!({"ev": "is_exhausted", "a": x0}));
        } else {
            let mut ids = Vec::new();
            collect_byrefs(&term, &mut ids);
            for &j in &ids {
                ex.push(json!({"ev": "resume", "a": {"src": j + 1}}));
            }
        }
        execs.push(ex);
    }
}

fn main() {
    let c = cli();
    silence_panics();
    match c.mode.as_str() {
        "gen" => gen(c.a1.parse().expect("seed"), &c.a2, &c.a3),
        "run" => {
            let n = drive(&c.a1, &c.a2, |out, ex| {
                let cfg = &ex[0]["cfg"];
                let fmt = cfg["fmt"].as_str().expect("fmt");
                let ch = cfg["ch"].as_u64().expect("ch");
                with_sort!(fmt, ch, F => run_exec::<F>(out, ex))
            });
            eprintln!("hx_signal: {} events", n);
        }
        _ => {
            eprintln!("usage: hx_signal run <stimuli> <trace> | gen <seed> <quick|thorough> <stimuli>");
            std::process::exit(2);
        }
    }
}
