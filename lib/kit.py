"""Plumbing shared by all property checks: run TLC (exhaustive model checking and trace
validation), build and run the Rust harness against /repo's working tree, classify rejected
events against known_findings.json, write evidence and replay files.

The TLA+ specification under /verif/spec is the only oracle; nothing in here (or in the
harness) computes an expected value."""
import concurrent.futures as cf
import json, os, re, shutil, subprocess, sys, time

VERIF = os.path.dirname(os.path.dirname(os.path.abspath(__file__)))
SPEC = os.path.join(VERIF, "spec")
# The registered checks always use /verif/harness (path dependencies on /repo).  tools/mutcheck.py sets
# these variables to run the same checks against a scratch copy of the repository (mutation testing)
# without touching /repo, /verif/evidence or /verif/replays.
HARNESS = os.environ.get("VERIF_HARNESS", os.path.join(VERIF, "harness"))
HARNESS_NOSTD = os.environ.get("VERIF_HARNESS_NOSTD", os.path.join(VERIF, "harness_nostd"))
EVIDENCE_DIR = os.environ.get("VERIF_EVIDENCE_DIR", os.path.join(VERIF, "evidence"))
REPLAY_DIR = os.environ.get("VERIF_REPLAY_DIR", os.path.join(VERIF, "replays"))
WORK_DIR = os.environ.get("VERIF_WORK_DIR", os.path.join(VERIF, "work"))
TLA_JAR = "/opt/veriftools/tla/tla2tools.jar:/opt/veriftools/tla/CommunityModules-deps.jar"


class ToolError(Exception):
    """Something in the machinery failed (exit 2; never a VIOLATION)."""


def log(*a):
    print(*a, file=sys.stderr, flush=True)


def run(cmd, cwd=None, env=None, timeout=None, capture=True):
    e = dict(os.environ)
    if env:
        e.update(env)
    t0 = time.time()
    try:
        p = subprocess.run(cmd, cwd=cwd, env=e, timeout=timeout, stdout=subprocess.PIPE if capture else None,
                           stderr=subprocess.STDOUT if capture else None, text=True)
    except subprocess.TimeoutExpired as x:
        raise ToolError("timeout after %ss: %s" % (timeout, " ".join(cmd[:6])))
    return p.returncode, (p.stdout or ""), time.time() - t0


def run_watch(cmd, cwd, env, progress_file, stall=100, timeout=3600):
    """Run a harness in careful mode and watch `<trace>.progress` (the index of the execution in progress): if it
    does not change for `stall` seconds the execution in progress hangs (returns rc = "hang")."""
    e = dict(os.environ)
    e.update(env or {})
    t0 = time.time()
    p = subprocess.Popen(cmd, cwd=cwd, env=e, stdout=subprocess.PIPE, stderr=subprocess.STDOUT, text=True)
    last, since = None, time.time()
    while True:
        try:
            out, _ = p.communicate(timeout=5)
            return p.returncode, out or "", time.time() - t0
        except subprocess.TimeoutExpired:
            pass
        try:
            cur = open(progress_file).read()
        except Exception:
            cur = None
        if cur != last:
            last, since = cur, time.time()
        if time.time() - since > stall or time.time() - t0 > timeout:
            p.kill()
            out, _ = p.communicate()
            if time.time() - since > stall:
                return "hang", out or "", time.time() - t0
            raise ToolError("timeout after %ss: %s" % (timeout, " ".join(cmd[:6])))


# ------------------------------------------------------------------------------------------ TLC

def tlc(module, cfg, workdir, workers=4, env=None, timeout=1800, coverage=False, heap="4g", simulate=None):
    """Run TLC on spec/<module>.tla with spec/<cfg>; returns (rc, stdout)."""
    meta = os.path.join(workdir, "tlc_%s_%d_%d" % (module, os.getpid(), int(time.time() * 1e6) % 10**9))
    os.makedirs(meta, exist_ok=True)
    xss = os.environ.get("VERIF_XSS", "1g")      # (experiments only: how deep do the specifications recurse?)
    java_opts = ("-Xss%s -Dtlc2.tool.queue.IStateQueue=StateDeque" % xss) if workers == 1 else "-Xss%s" % xss
    java_opts += " -Djava.io.tmpdir=" + meta      # TLC unpacks its standard modules into tmpdir; removed with meta
    cmd = ["java", "-XX:+UseParallelGC", "-Xmx" + heap, "-cp", TLA_JAR, "tlc2.TLC",
           "-workers", str(workers), "-metadir", meta, "-cleanup", "-noGenerateSpecTE"]
    if coverage:
        cmd += ["-coverage", "1"]
    if simulate:
        cmd += ["-simulate", simulate]
    cmd += ["-config", cfg, module + ".tla"]
    e = {"JAVA_TOOL_OPTIONS": java_opts}
    if env:
        e.update(env)
    try:
        rc, out, dt = run(cmd, cwd=SPEC, env=e, timeout=timeout)
    finally:
        shutil.rmtree(meta, ignore_errors=True)
    return rc, out, dt


import threading
RETRY_LOCK = threading.Lock()     # retried pieces run one at a time

_STATES = re.compile(r"(\d+) states generated, (\d+) distinct states found")
_COV = re.compile(r"^<(\w+) line \d+, col \d+ to line \d+, col \d+ of module (\w+)(?: \([^)]*\))?>: (\d+):(\d+)", re.M)


def parse_states(out):
    m = _STATES.findall(out)
    if not m:
        return None
    g, d = m[-1]
    return int(g), int(d)


# ------------------------------------------------------------------------------------------ ctx

class Ctx:
    def __init__(self, pid, tier, seed, level="model_checking"):
        self.pid, self.tier, self.seed, self.level = pid, tier, seed, level
        self.t0 = time.time()
        self.work = os.path.join(WORK_DIR, "%s_%s_%d" % (pid, tier, os.getpid()))
        shutil.rmtree(self.work, ignore_errors=True)
        os.makedirs(self.work, exist_ok=True)
        self.states = 0
        self.transitions = 0
        self.mc_runs = []
        self.traces = 0            # reset-delimited executions accepted by the trace specs
        self.events = 0            # trace lines judged by TLC
        self.distinct = set()      # distinct non-trivial cases (hashes), see rule
        self.samples = []
        self.rejections = []       # dicts: {comp, kind, event, exec(list of events), file}
        self.assumptions = []
        self.notes = []
        self.trusted = ["TLC 1.8 / SANY", "CommunityModules Json reader", "rustc IEEE semantics",
                        "harness loggers (no oracle logic)"]
        self.exhaustive = None
        self.apalache = []
        self.rule = ("stimuli = every transition TLC enumerates from the model's state set plus seeded random "
                     "histories; an execution counts as distinct+non-trivial when its (reset, operations) text is "
                     "new and at least one operation returned a value or changed the observed state")
        self.extra = {}
        self.findings = load_findings()
        self.is_replay = False

    # -- sub-contexts: let independent pipelines run concurrently (C07 runs every family) -----------
    def child(self, label):
        c = Ctx.__new__(Ctx)
        c.__dict__.update(self.__dict__)
        c.work = os.path.join(self.work, label)
        os.makedirs(c.work, exist_ok=True)
        c.states = c.transitions = c.traces = c.events = 0
        c.mc_runs, c.distinct, c.samples, c.rejections = [], set(), [], []
        c.assumptions, c.notes, c.apalache, c.extra = [], [], [], {}
        c.label = label
        c.light = getattr(self, "light", 0)
        return c

    def merge(self, c):
        self.states += c.states
        self.transitions += c.transitions
        self.traces += c.traces
        self.events += c.events
        self.mc_runs += c.mc_runs
        self.distinct |= {hash((c.label, h)) for h in c.distinct}
        self.samples += c.samples[:1]
        self.apalache += c.apalache
        self.extra.setdefault("components", {})[c.label] = dict(c.extra, events=c.events, executions=c.traces)

    # -- exhaustive model checking --------------------------------------------------------
    def mc(self, module, cfg, workers=4, env=None, timeout=1800, need_actions=None, heap="6g", stim_out=None):
        """Exhaustive TLC run of a model; an invariant violation here is a defect of the model
        (it cannot depend on /repo), hence a tool error."""
        rc, out, dt = tlc(module, cfg, self.work, workers=workers, env=env, timeout=timeout, coverage=True, heap=heap)
        st = parse_states(out)
        if rc != 0 or st is None or "Error:" in out:
            tail = "\n".join(out.splitlines()[-40:])
            raise ToolError("TLC model checking of %s/%s failed (rc=%s):\n%s" % (module, cfg, rc, tail))
        cov = {}
        for name, mod, a, b in _COV.findall(out):
            if mod == module or True:
                cov[name] = cov.get(name, 0) + int(b)
        for act in (need_actions or []):
            if cov.get(act, 0) == 0:
                raise ToolError("vacuity: action %s of %s never taken" % (act, module))
        if stim_out:
            # stimuli printed by the model as  "STIM <json array of events>"  (one execution per line)
            n = 0
            with open(stim_out, "w") as f:
                for line in out.splitlines():
                    if line.startswith('"STIM '):
                        f.write(json.loads(line)[5:] + "\n")
                        n += 1
            if n == 0:
                raise ToolError("model %s emitted no stimuli" % module)
            log("[mc] %s: %d stimuli" % (module, n))
        self.states += st[1]
        self.transitions += st[0]
        self.mc_runs.append({"module": module, "cfg": cfg, "generated": st[0], "distinct": st[1],
                             "wall_s": round(dt, 1), "actions": cov})
        log("[mc] %s %s: %d generated, %d distinct, %.1fs" % (module, cfg, st[0], st[1], dt))
        return out

    # -- harness ------------------------------------------------------------------------------
    def cargo_build(self, pkg, release=False, workspace=None, features=None):
        workspace = workspace or HARNESS
        cmd = ["cargo", "build", "--offline", "-q", "-p", pkg]
        if release:
            cmd.append("--release")
        if features:
            cmd += ["--features", features]
        rc, out, dt = run(cmd, cwd=workspace, env={"CARGO_NET_OFFLINE": "true"}, timeout=1800)
        if rc != 0:
            errs = [l for l in out.splitlines() if l.startswith("error")]
            raise ToolError("cargo build -p %s failed:\n%s" % (pkg, "\n".join(out.splitlines()[-60:])))
        log("[build] %s%s %.1fs" % (pkg, " --release" if release else "", dt))
        return os.path.join(workspace, "target", "release" if release else "debug", pkg)

    def harness(self, binpath, args, timeout=900):
        rc, out, dt = run([binpath] + args, cwd=self.work, timeout=timeout)
        if rc != 0:
            raise ToolError("harness %s %s failed rc=%s:\n%s" % (binpath, args, rc, out[-3000:]))
        return out

    def run_stimuli(self, binpath, stim, trace, comp, extra_args=None, timeout=1800, max_crashes=5):
        """`<bin> run <stim> <trace>`.  The code under test may abort the process (e.g. an unsafe
        precondition check, a segfault): that is data, not a tool failure.  The run is then repeated in
        careful mode to find the execution that crashed, which becomes a rejection of kind 'crash'
        (replay = that stimulus); execution continues after it."""
        if getattr(self, "light", 0):
            stim = thin_stimuli(stim, self.light)
        args = ["run", stim, trace] + (extra_args or [])
        try:
            # (quick tier: no harness run takes more than a minute or two; a run still going after five is treated as stuck)
            rc, out, dt = run([binpath] + args, cwd=self.work, timeout=min(timeout, 300) if self.tier == "quick" else timeout)
        except ToolError:
            # The code under test may also never return (e.g. an index that wrapped in a release build): the careful
            # re-run watches the progress file and attributes a stall of several minutes to the execution in progress.
            rc, out = "timeout", ""
        if rc == 0:
            return []
        if rc == 2 and "usage" in out:
            raise ToolError("harness usage error: " + out[-500:])
        log("[harness] %s exited with %s; re-running in careful mode" % (os.path.basename(binpath), rc))
        crashes, start = [], 0
        stimuli = None
        while True:
            env = {"HX_CAREFUL": "1", "HX_FROM": str(start)}
            rc, out, dt = run_watch([binpath] + args, self.work, env, trace + ".progress", timeout=2 * timeout)
            if rc == 0:
                break
            try:
                k = int(open(trace + ".progress").read())
            except Exception:
                raise ToolError("harness failed without progress information: rc=%s %s" % (rc, out[-2000:]))
            if stimuli is None:
                stimuli = load_stimuli(stim)
            # drop the partial output of the crashed execution (complete lines back to its reset)
            lines = open(trace).read().split("\n")
            lines = [l for l in lines[:-1]] if lines and lines[-1] != "" else lines[:-1]
            # the crashed execution may have produced several resets (one per storage kind): keep them, they are complete calls
            with open(trace, "w") as f:
                f.write("".join(l + "\n" for l in lines if l.endswith("}")))
            crashes.append({"comp": comp, "kind": "hang" if rc == "hang" else "crash", "pos": -1,
                            "event": {"ev": "hang" if rc == "hang" else "crash", "exit": rc, "output": out[-300:]},
                            "exec": stimuli[k]})
            start = k + 1
            hangs = sum(1 for c in crashes if c["kind"] == "hang")
            if len(crashes) >= max_crashes or hangs >= 2 or start >= len(stimuli):
                break
        if os.path.exists(trace + ".progress"):
            os.remove(trace + ".progress")
        return crashes

    # -- trace validation ---------------------------------------------------------------------
    def validate(self, module, trace_file, cfg=None, comp=None, max_lines=40000, jobs=6, timeout=1800,
                 heap_only=False, batch=False, env=None):
        """Validate a recorded trace against spec/<module>.tla.  The file is cut at `reset` lines into
        pieces of at most max_lines lines, each judged by its own JVM.  TLC prints
          <<"REJECT", l, ...>>  functional rejection of line l (rest of that execution skipped)
          <<"HEAP", l, ...>>    the heap conjunct (C07) failed on line l
          <<"BAD", {l, ...}>>   (batch mode) the stateless events that are not accepted
        Returns dict(lines=..., execs=..., rejected=[...], heap=[...])."""
        cfg = cfg or (module + ".cfg")
        pieces = split_trace(trace_file, self.work, max_lines)
        res = {"lines": 0, "execs": 0, "rejected": [], "heap": []}

        def one(piece):
            path, nlines, nexecs = piece
            e = {"TRACE": path}
            if env:
                e.update(env)
            # A JVM that cannot get memory for its heap or its (deep) stack while many others run fails with an
            # error of its own (never with a verdict): such a piece is validated again, alone, before giving up.
            JVM_TROUBLE = ("StackOverflowError", "OutOfMemoryError", "unable to create native thread",
                           "Cannot allocate memory", "There is insufficient memory")
            def attempt_once():
                rc, out, dt = tlc(module, cfg, self.work, workers=1, env=e, timeout=timeout, heap="3g")
                st = parse_states(out)
                return rc, out, st, dt, rc == 0 and "Error:" not in out and (batch or (st and st[0] >= nlines))
            rc, out, st, dt, ok = attempt_once()
            for attempt in range(2):
                if ok or not any(t in out for t in JVM_TROUBLE):
                    break
                log("[trace] %s: JVM resource error on %s, validating that piece again (retry %d, one at a time)"
                    % (module, os.path.basename(path), attempt + 1))
                with RETRY_LOCK:
                    time.sleep(5 + 20 * attempt)
                    rc, out, st, dt, ok = attempt_once()
            if not ok:
                raise ToolError("trace validation %s on %s failed (rc=%s):\n%s" %
                                (module, path, rc, "\n".join(out.splitlines()[-40:])))
            # TLC pretty-prints long values over several lines (`<< "BAD",\n   { 44,\n     45, ...`): match across whitespace
            rej = [int(x) for x in re.findall(r'<<\s*"REJECT",\s*(\d+)', out)]
            hp = [int(x) for x in re.findall(r'<<\s*"HEAP",\s*(\d+)', out)]
            for m in re.findall(r'<<\s*"BAD",\s*\{([^}]*)\}', out, re.S):
                rej += [int(x) for x in re.split(r"[\s,]+", m) if x]
            for m in re.findall(r'<<\s*"HEAPSET",\s*\{([^}]*)\}', out, re.S):
                hp += [int(x) for x in re.split(r"[\s,]+", m) if x]
            return path, nlines, nexecs, sorted(set(rej)), sorted(set(hp)), dt

        with cf.ThreadPoolExecutor(max_workers=jobs) as ex:
            outs = list(ex.map(one, pieces))
        for path, nlines, nexecs, rej, hp, dt in outs:
            res["lines"] += nlines
            res["execs"] += nexecs
            if rej or hp:
                lines = open(path).read().splitlines()
                for kind, idxs in (("func", rej), ("heap", hp)):
                    for l in idxs:
                        ev = json.loads(lines[l - 1])
                        a = l - 1
                        while a > 0 and '"ev":"reset"' not in lines[a]:
                            a -= 1
                        b = l
                        while b < len(lines) and '"ev":"reset"' not in lines[b]:
                            b += 1
                        execu = [json.loads(x) for x in lines[a:b]]
                        r = {"comp": comp or module, "kind": kind, "event": ev, "exec": execu, "pos": l - 1 - a}
                        (res["rejected"] if kind == "func" else res["heap"]).append(r)
        nrej_execs = len({json.dumps(r["exec"][0], sort_keys=True) + str(id(r)) for r in res["rejected"]})
        self.events += res["lines"]
        self.traces += res["execs"] - len(res["rejected"])
        log("[trace] %s: %d lines, %d executions, %d rejected, %d heap, %d JVMs" %
            (module, res["lines"], res["execs"], len(res["rejected"]), len(res["heap"]), len(pieces)))
        return res

    def add_rejections(self, rs):
        self.rejections += rs

    def count_distinct(self, trace_file, limit_samples=3):
        """Count distinct non-trivial executions of a trace file (rule above) and keep samples."""
        cur, nontriv = [], False
        n = 0

        def flush():
            nonlocal cur, nontriv
            if cur and nontriv:
                self.distinct.add(hash("\n".join(cur)))
            cur, nontriv = [], False
        with open(trace_file) as f:
            for line in f:
                if '"ev":"reset"' in line:
                    flush()
                    n += 1
                    if len(self.samples) < limit_samples or (n % 9973 == 0 and len(self.samples) < 8):
                        self.samples.append({"trace_excerpt": [json.loads(line)]})
                        self._sampling = 3
                elif getattr(self, "_sampling", 0) > 0:
                    self._sampling -= 1
                    self.samples[-1]["trace_excerpt"].append(json.loads(line))
                if '"k":"unit"' not in line or '"ev":"reset"' not in line:
                    nontriv = True
                # identity of the stimulus: strip observations
                cur.append(line[:400])
            flush()

    # -- finish -------------------------------------------------------------------------------
    def finish(self):
        known, viol = [], []
        for r in self.rejections:
            k = match_finding(self.findings, self.pid, r)
            (known if k else viol).append((r, k))
        outdir = os.path.join(REPLAY_DIR, self.pid)
        lines = []
        seen_known = {}
        for r, k in known:
            seen_known.setdefault(k["what"], 0)
            seen_known[k["what"]] += 1
        for what, n in seen_known.items():
            lines.append("KNOWN-FINDING: property=%s %s (%d rejected events)" % (self.pid, what, n))
        replay_paths = []
        if viol:
            os.makedirs(outdir, exist_ok=True)
            for j, (r, _) in enumerate(viol[:5]):
                name = "%s_%s_%d_%d.ndjson" % (r["comp"], self.tier, self.seed, j)
                path = os.path.join(outdir, name)
                with open(path, "w") as f:
                    for ev in r["exec"]:
                        f.write(json.dumps(strip_obs(ev)) + "\n")
                replay_paths.append(path)
                lines.append("VIOLATION property=%s replay=%s" % (self.pid, path))
                log("  rejected (%s) at step %d of the execution: %s" %
                    (r["kind"], r["pos"], json.dumps(r["event"])[:1500]))
        wall = time.time() - self.t0
        cov = {
            "states": self.states, "transitions": self.transitions,
            "traces_validated_against_impl": self.traces,
            "evaluations": self.events, "distinct_nontrivial": len(self.distinct),
            "rule": self.rule, "samples": self.samples[:8] or [{"note": "no trace sample recorded"}],
            "model_checking_runs": self.mc_runs, "trusted_base": self.trusted,
            "known_findings_seen": seen_known, "rejected_events": len(self.rejections),
        }
        if self.exhaustive is not None:
            cov["exhaustive"] = self.exhaustive
        if self.apalache:
            cov["apalache"] = self.apalache
        cov.update(self.extra)
        ev = {"property_id": self.pid, "tier": self.tier, "seed": self.seed, "level": self.level,
              "coverage": cov, "assumptions": self.assumptions, "wall_s": round(wall, 1),
              "violations": len(viol), "notes": self.notes}
        if not self.is_replay:   # a replay judges one stimulus; it is not a record of coverage
            os.makedirs(EVIDENCE_DIR, exist_ok=True)
            with open(os.path.join(EVIDENCE_DIR, self.pid + ".json"), "w") as f:
                json.dump(ev, f, indent=1)
        for l in lines:
            print(l, flush=True)
        shutil.rmtree(self.work, ignore_errors=True)
        return 1 if viol else 0


def profile_runs(ctx, pkg, stim_files, replay=None, keep_quick=1500):
    """Both build profiles of a harness: yields (name, profile, binary, stimuli file).  The debug build runs
    everything; the release build (debug assertions off, optimised: `debug_assert!`-only checks, cfg!(debug_assertions)
    branches and overflow behaviour differ) runs a replay as it is, the random stimuli in full and the TLC-enumerated
    ones thinned to ~keep_quick executions in the quick tier.  C07's quick tier (ctx.light: heap watch over every
    family) stays with the debug build."""
    hx = ctx.cargo_build(pkg)
    bins = [("debug", hx)]
    if not getattr(ctx, "light", 0):
        bins.append(("release", ctx.cargo_build(pkg, release=True)))
    for item in stim_files:
        name, sf = item[0], item[1]
        for prof, b in bins:
            f = sf
            if prof == "release" and not replay and ctx.tier == "quick":
                f = thin_stimuli(sf, keep_quick)
            yield name, prof, b, f


def thin_stimuli(path, keep):
    """C07's quick tier re-runs every family only to watch the heap counters: a stimuli file with more than
    `keep` executions (one per line) is thinned to an evenly spaced subset of about that size.  Files in the
    one-event-per-line form (replays) and small files are left alone."""
    with open(path) as f:
        lines = f.readlines()
    if len(lines) <= keep or not lines or not lines[0].lstrip().startswith("["):
        return path
    stride = (len(lines) + keep - 1) // keep
    out = path + ".thin"
    with open(out, "w") as f:
        f.writelines(lines[::stride])
    return out


def load_stimuli(path):
    out = []
    for line in open(path):
        line = line.strip()
        if not line:
            continue
        v = json.loads(line)
        if isinstance(v, list):
            out.append(v)
        elif v.get("ev") == "reset" or not out:
            out.append([v])
        else:
            out[-1].append(v)
    return out


def strip_obs(ev):
    return {k: v for k, v in ev.items() if k in ("ev", "comp", "cfg", "a")}


def split_trace(path, workdir, max_lines):
    """Cut a trace at reset lines into pieces of <= max_lines lines (an execution is never cut)."""
    pieces, cur, n, nex = [], [], 0, 0
    base = os.path.join(workdir, os.path.basename(path))
    k = 0

    def flush():
        nonlocal cur, n, nex, k
        if cur:
            p = "%s.part%d" % (base, k)
            with open(p, "w") as f:
                f.writelines(cur)
            pieces.append((p, n, nex))
            k += 1
        cur, n, nex = [], 0, 0
    with open(path) as f:
        for line in f:
            if '"ev":"reset"' in line:
                if n >= max_lines:
                    flush()
                nex += 1
            cur.append(line)
            n += 1
    flush()
    return pieces


# ------------------------------------------------------------------------------------------ findings

def load_findings():
    p = os.path.join(VERIF, "known_findings.json")
    if not os.path.exists(p):
        return []
    return [f for f in json.load(open(p))["findings"] if f.get("status") == "known"]


def match_finding(findings, pid, r):
    """A rejected event is a known finding iff a `known` entry for this property matches it:
    `comp`, `ev` (list) and `where` (a Python expression over e = the rejected event, reset = the
    execution's reset line, kind = 'func'|'heap')."""
    e, reset = r["event"], r["exec"][0]
    for f in findings:
        if f["property"] != pid:
            continue
        m = f.get("match", {})
        if "comp" in m and m["comp"] != r["comp"]:
            continue
        if "ev" in m and e.get("ev") not in m["ev"]:
            continue
        if "where" in m:
            try:
                if not eval(m["where"], {"__builtins__": {"len": len, "any": any, "all": all, "str": str}},
                            {"e": e, "reset": reset, "kind": r["kind"]}):
                    continue
            except Exception:
                continue
        return f
    return None


def main(registry):
    import argparse
    ap = argparse.ArgumentParser()
    ap.add_argument("pid")
    ap.add_argument("--tier", default=os.environ.get("VERIF_TIER", "quick"))
    ap.add_argument("--replay", default=None)
    a = ap.parse_args()
    seed = int(os.environ.get("VERIF_SEED", "20261003"))
    if a.pid not in registry:
        print("unknown property", a.pid)
        sys.exit(2)
    ctx = Ctx(a.pid, a.tier, seed)
    ctx.is_replay = a.replay is not None
    try:
        registry[a.pid](ctx, os.path.abspath(a.replay) if a.replay else None)
        rc = ctx.finish()
    except ToolError as x:
        log("TOOL ERROR: %s" % x)
        if not os.environ.get("VERIF_KEEP_WORK"):
            shutil.rmtree(ctx.work, ignore_errors=True)
        sys.exit(2)
    sys.exit(rc)
