#!/usr/bin/env python3
"""check.py <property id> [--tier quick|thorough] [--replay <file>]

Decides one property of /verif/properties.jsonl for /repo's current working tree:
TLC model checking of the specification, execution of TLC-enumerated and random stimuli on the
real code, TLC trace validation of everything the code did.  Exit 0 = held on everything
explored; exit 1 + `VIOLATION property=<id> replay=<path>` = the code left the specification;
exit 2 = the machinery itself failed."""
import os, sys
sys.path.insert(0, os.path.dirname(os.path.abspath(__file__)))
from lib import kit
import props

if __name__ == "__main__":
    kit.main(props.REGISTRY)
